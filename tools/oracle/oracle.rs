//! Test oracle for the seventeen semantic properties C01..C17 of Narsese.rs.
//!
//! * public API only, deterministic (fixed seeds, own xorshift PRNG), no extra dependencies
//! * one `#[test]` per property: `oracle_c01` .. `oracle_c17`
//! * every comparison of enum values is done BOTH with the library's `==` and with an independent
//!   canonical form (`canon_*`) computed here from the public enum fields, so that a broken
//!   `PartialEq`/`Hash` cannot mask a broken parser/formatter and vice versa.
//! * enum terms are generated as *descriptions* (`D`, the reference model) and built through the public
//!   constructors, inserting unordered components in random order / with duplicates.
//! * expected texts come from a reference formatter with its own hard-coded keyword tables (`Vocab`),
//!   a reference Typst renderer, and a recogniser for the README's PEG grammar.
//!
//! Inputs stay clear of the known limitations of the current tree: names are non-empty identifiers
//! (letter first, inner `_` / single inner `-`), ASCII-only in the Han format; numbers finite, in [0,1],
//! never -0.0 in texts; compounds non-empty; no placeholder among the ordinary components of a formatted
//! image; fuzz inputs <= 512 chars and nesting <= 64.
//!
//! | test | content |
//! |------|---------|
//! | c01  | exact text + round trip of enum values in 3 formats, all constructors / items, stand-alone item formatters+parsers |
//! | c02  | exact text + round trip of lexical values (free arity / counts) in 3 formats |
//! | c03  | enum parser == lexical parser + fold on enum output and on lexical output with derived copulas; keyword-by-keyword fold table |
//! | c04  | enum parser entry points total on a fuzz corpus (watchdog thread), exact Ok/Err for classic inputs |
//! | c05  | lexical parser + fold total on the corpus and on arbitrary lexical values, exact fold errors |
//! | c06  | `==` vs canonical form on equal / near-miss / random pairs, equivalence laws, wrappers |
//! | c07  | equal => same hash (DefaultHasher, RandomState), HashSet / HashMap lookups |
//! | c08  | parse_multi[i] ~ parse(s_i) for fragments and sequences, parse twice, parse_chars, lexical reuse |
//! | c09  | 0..n spaces at every token boundary (both pipelines), all Unicode whitespace (lexical), macros |
//! | c10  | instance / property / instance-property / retrospective equivalence, image index, intervals, placeholders |
//! | c11  | ASCII lexicon, ASCII output accepted by the README grammar with same kind and same tree |
//! | c12  | Ok values of parser / fold are well-formed and formattable; exact rejections |
//! | c13  | truth / budget constructors and accessors on edge floats, evidence number API |
//! | c14  | accessors vs extraction vs model, category, capacity (enum + lexical) |
//! | c15  | kinds, casts, NarseseValue wrappers, accessors, NarseseOptions (enum + lexical) |
//! | c16  | Typst: exact text vs reference renderer, trimmed, no doubled whitespace, injective |
//! | c17  | set_atom_name / push_components vs reference model on every constructor |
#![allow(clippy::all)]
#![allow(dead_code)]

use narsese::api::{
    CastToTask, EvidentNumber, EvidentValue, EvidentValueMut, ExtractTerms, GetBudget,
    GetCapacity, GetCategory, GetPunctuation, GetStamp, GetTerm, GetTruth, NarseseOptions,
    NarseseValue, TermCapacity, TermCategory, TryCastToSentence,
};
use narsese::conversion::inter_type::lexical_fold::TryFoldInto;
use narsese::conversion::string::impl_enum::{
    format_instances as efi, NarseseFormat as EFormat,
};
use narsese::conversion::string::impl_lexical::{
    format_instances as lfi, NarseseFormat as LFormat,
};
use narsese::conversion::string::typst_formatter::FormatterTypst;
use narsese::enum_narsese::{
    Budget, ImageIterator, Narsese, Punctuation, Sentence, Stamp, Task, Term, Truth,
};
use narsese::lexical as lx;
use std::collections::hash_map::DefaultHasher;
use std::collections::{HashMap, HashSet};
use std::hash::{BuildHasher, Hash, Hasher};
use std::panic::{catch_unwind, AssertUnwindSafe};

// ---------------------------------------------------------------------------------------------
// PRNG (xorshift64*)
// ---------------------------------------------------------------------------------------------

struct Rng(u64);
impl Rng {
    fn new(seed: u64) -> Self {
        Rng(seed.wrapping_mul(0x9E37_79B9_7F4A_7C15) | 1)
    }
    fn next(&mut self) -> u64 {
        let mut x = self.0;
        x ^= x >> 12;
        x ^= x << 25;
        x ^= x >> 27;
        self.0 = x;
        x.wrapping_mul(0x2545_F491_4F6C_DD1D)
    }
    /// uniform in 0..n (n > 0)
    fn below(&mut self, n: usize) -> usize {
        ((self.next() >> 11) % (n as u64)) as usize
    }
    fn range(&mut self, lo: usize, hi_incl: usize) -> usize {
        lo + self.below(hi_incl - lo + 1)
    }
    fn chance(&mut self, num: usize, den: usize) -> bool {
        self.below(den) < num
    }
    fn pick<'a, T>(&mut self, xs: &'a [T]) -> &'a T {
        &xs[self.below(xs.len())]
    }
    fn shuffle<T>(&mut self, xs: &mut Vec<T>) {
        for i in (1..xs.len()).rev() {
            let j = self.below(i + 1);
            xs.swap(i, j);
        }
    }
}

// ---------------------------------------------------------------------------------------------
// quiet panics (only for threads that ask for it) so that expected panics do not spam the output
// ---------------------------------------------------------------------------------------------

thread_local! { static QUIET: std::cell::Cell<bool> = std::cell::Cell::new(false); }
static HOOK: std::sync::Once = std::sync::Once::new();
fn install_hook() {
    HOOK.call_once(|| {
        let default = std::panic::take_hook();
        std::panic::set_hook(Box::new(move |info| {
            if !QUIET.with(|q| q.get()) {
                default(info)
            }
        }));
    });
}
/// run `f`, catching a panic; the panic message is not printed
fn quiet<T>(f: impl FnOnce() -> T) -> Result<T, String> {
    install_hook();
    let old = QUIET.with(|q| q.replace(true));
    let r = catch_unwind(AssertUnwindSafe(f));
    QUIET.with(|q| q.set(old));
    r.map_err(|e| {
        if let Some(s) = e.downcast_ref::<&str>() {
            s.to_string()
        } else if let Some(s) = e.downcast_ref::<String>() {
            s.clone()
        } else {
            "<non-string panic>".to_string()
        }
    })
}

// ---------------------------------------------------------------------------------------------
// formats
// ---------------------------------------------------------------------------------------------

#[derive(Clone, Copy, Debug, PartialEq, Eq)]
enum F {
    Ascii,
    Latex,
    Han,
}
const FORMATS: [F; 3] = [F::Ascii, F::Latex, F::Han];

static E_ASCII: EFormat<&'static str> = efi::FORMAT_ASCII;
static E_LATEX: EFormat<&'static str> = efi::FORMAT_LATEX;
static E_HAN: EFormat<&'static str> = efi::FORMAT_HAN;

fn ef(f: F) -> &'static EFormat<&'static str> {
    match f {
        F::Ascii => &E_ASCII,
        F::Latex => &E_LATEX,
        F::Han => &E_HAN,
    }
}
fn lf(f: F) -> &'static LFormat {
    match f {
        F::Ascii => &lfi::FORMAT_ASCII,
        F::Latex => &lfi::FORMAT_LATEX,
        F::Han => &lfi::FORMAT_HAN,
    }
}

/// The expected surface vocabulary of one format (hard-coded here, independent of the library tables).
struct Vocab {
    space_terms: &'static str,
    space_items: &'static str,
    /// word, placeholder, ivar, dvar, qvar, interval, operator
    prefix: [&'static str; 7],
    br_compound: (&'static str, &'static str),
    sep: &'static str,
    br_ext: (&'static str, &'static str),
    br_int: (&'static str, &'static str),
    /// indexed by constructor id - 9 for ids 9..=20 (sets 7, 8 have no connecter)
    connecter: [&'static str; 12],
    br_stmt: (&'static str, &'static str),
    /// inh, sim, impl, equiv, impl_pred, impl_conc, impl_retro, equiv_pred, equiv_conc (ids 21..=29)
    copula: [&'static str; 9],
    /// instance, property, instance-property, retrospective equivalence
    copula_derived: [&'static str; 4],
    /// judgement, goal, question, quest
    punct: [&'static str; 4],
    stamp_br: (&'static str, &'static str),
    stamp_past: &'static str,
    stamp_present: &'static str,
    stamp_future: &'static str,
    stamp_fixed: &'static str,
    truth_br: (&'static str, &'static str),
    truth_sep: &'static str,
    budget_br: (&'static str, &'static str),
    budget_sep: &'static str,
}

static V_ASCII: Vocab = Vocab {
    space_terms: " ",
    space_items: " ",
    prefix: ["", "_", "$", "#", "?", "+", "^"],
    br_compound: ("(", ")"),
    sep: ",",
    br_ext: ("{", "}"),
    br_int: ("[", "]"),
    connecter: ["&", "|", "-", "~", "*", "/", "\\", "&&", "||", "--", "&/", "&|"],
    br_stmt: ("<", ">"),
    copula: ["-->", "<->", "==>", "<=>", "=/>", "=|>", "=\\>", "</>", "<|>"],
    copula_derived: ["{--", "--]", "{-]", "<\\>"],
    punct: [".", "!", "?", "@"],
    stamp_br: (":", ":"),
    stamp_past: "\\",
    stamp_present: "|",
    stamp_future: "/",
    stamp_fixed: "!",
    truth_br: ("%", "%"),
    truth_sep: ";",
    budget_br: ("$", "$"),
    budget_sep: ";",
};

static V_LATEX: Vocab = Vocab {
    space_terms: " ",
    space_items: " ",
    prefix: ["", r"\diamond{}", r"\$", r"\#", "?", "+", r"\Uparrow{}"],
    br_compound: (r"\left(", r"\right)"),
    sep: r"\;",
    br_ext: (r"\left\{", r"\right\}"),
    br_int: (r"\left[", r"\right]"),
    connecter: [
        r"\cap{}",
        r"\cup{}",
        r"\minus{}",
        r"\sim{}",
        r"\times{}",
        "/",
        r"\backslash{}",
        r"\wedge{}",
        r"\vee{}",
        r"\neg{}",
        ",",
        ";",
    ],
    br_stmt: (r"\left<", r"\right>"),
    copula: [
        r"\rightarrow{}",
        r"\leftrightarrow{}",
        r"\Rightarrow{}",
        r"\Leftrightarrow{}",
        r"/\!\!\!\!\!\Rightarrow{}",
        r"|\!\!\!\!\!\Rightarrow{}",
        r"\backslash\!\!\!\!\!\Rightarrow{}",
        r"/\!\!\!\Leftrightarrow{}",
        r"|\!\!\!\Leftrightarrow{}",
    ],
    copula_derived: [
        r"\circ\!\!\!\rightarrow{}",
        r"\rightarrow\!\!\!\circ{}",
        r"\circ\!\!\!\rightarrow\!\!\!\circ{}",
        r"\backslash\!\!\!\Leftrightarrow{}",
    ],
    punct: [".", "!", "?", "¿"],
    stamp_br: ("", ""),
    stamp_past: r"\backslash\!\!\!\!\!\Rightarrow{}",
    stamp_present: r"|\!\!\!\!\!\Rightarrow{}",
    stamp_future: r"/\!\!\!\!\!\Rightarrow{}",
    stamp_fixed: "t=",
    truth_br: (r"\langle{}", r"\rangle{}"),
    truth_sep: ",",
    budget_br: (r"\$", r"\$"),
    budget_sep: ";",
};

static V_HAN: Vocab = Vocab {
    space_terms: "",
    space_items: " ",
    prefix: ["", "某", "任一", "其一", "所问", "间隔", "操作"],
    br_compound: ("（", "）"),
    sep: "，",
    br_ext: ("『", "』"),
    br_int: ("【", "】"),
    connecter: [
        "外交", "内交", "外差", "内差", "积", "外像", "内像", "与", "或", "非", "接连", "同时",
    ],
    br_stmt: ("「", "」"),
    copula: ["是", "似", "得", "同", "将得", "现得", "曾得", "将同", "现同"],
    copula_derived: ["为", "有", "具有", "曾同"],
    punct: ["。", "！", "？", "；"],
    stamp_br: ("", ""),
    stamp_past: "过去",
    stamp_present: "现在",
    stamp_future: "将来",
    stamp_fixed: "发生在",
    truth_br: ("真", "值"),
    truth_sep: "、",
    budget_br: ("预", "算"),
    budget_sep: "、",
};

fn vocab(f: F) -> &'static Vocab {
    match f {
        F::Ascii => &V_ASCII,
        F::Latex => &V_LATEX,
        F::Han => &V_HAN,
    }
}

// ---------------------------------------------------------------------------------------------
// descriptions of enum terms (the reference model)
// ---------------------------------------------------------------------------------------------

const WORD: u8 = 0;
const PLACEHOLDER: u8 = 1;
const IVAR: u8 = 2;
const DVAR: u8 = 3;
const QVAR: u8 = 4;
const INTERVAL: u8 = 5;
const OPERATOR: u8 = 6;
const SET_EXT: u8 = 7;
const SET_INT: u8 = 8;
const INTER_EXT: u8 = 9;
const INTER_INT: u8 = 10;
const DIFF_EXT: u8 = 11;
const DIFF_INT: u8 = 12;
const PRODUCT: u8 = 13;
const IMAGE_EXT: u8 = 14;
const IMAGE_INT: u8 = 15;
const CONJ: u8 = 16;
const DISJ: u8 = 17;
const NEG: u8 = 18;
const SEQ: u8 = 19;
const PAR: u8 = 20;
const INH: u8 = 21;
const SIM: u8 = 22;
const IMPL: u8 = 23;
const EQUIV: u8 = 24;
const IMPL_PRED: u8 = 25;
const IMPL_CONC: u8 = 26;
const IMPL_RETRO: u8 = 27;
const EQUIV_PRED: u8 = 28;
const EQUIV_CONC: u8 = 29;
const N_CTORS: u8 = 30;

const CTOR_TAGS: [&str; 30] = [
    "W", "_", "I", "D", "Q", "N", "O", "SE", "SI", "IE", "II", "DE", "DI", "PR", "ME", "MI", "CJ",
    "DJ", "NG", "SQ", "PA", "INH", "SIM", "IMP", "EQV", "IMPP", "IMPC", "IMPR", "EQVP", "EQVC",
];

fn is_named_atom(c: u8) -> bool {
    matches!(c, WORD | IVAR | DVAR | QVAR | OPERATOR)
}
fn is_atom_c(c: u8) -> bool {
    c <= OPERATOR
}
fn is_unordered_c(c: u8) -> bool {
    matches!(c, SET_EXT | SET_INT | INTER_EXT | INTER_INT | CONJ | DISJ | PAR)
}
fn is_seq_c(c: u8) -> bool {
    matches!(c, PRODUCT | SEQ)
}
fn is_image_c(c: u8) -> bool {
    matches!(c, IMAGE_EXT | IMAGE_INT)
}
fn is_symmetric_c(c: u8) -> bool {
    matches!(c, SIM | EQUIV | EQUIV_CONC)
}
fn is_binary_c(c: u8) -> bool {
    matches!(c, DIFF_EXT | DIFF_INT) || c >= INH
}
fn is_statement_c(c: u8) -> bool {
    c >= INH
}

/// description of an enum term: constructor id, atom name, number (interval value / image index), children
#[derive(Clone, Debug, PartialEq)]
struct D {
    c: u8,
    name: String,
    num: usize,
    kids: Vec<D>,
}
impl D {
    fn atom(c: u8, name: &str) -> D {
        D { c, name: name.to_string(), num: 0, kids: vec![] }
    }
    fn word(name: &str) -> D {
        D::atom(WORD, name)
    }
    fn interval(n: usize) -> D {
        D { c: INTERVAL, name: String::new(), num: n, kids: vec![] }
    }
    fn placeholder() -> D {
        D::atom(PLACEHOLDER, "")
    }
    fn node(c: u8, kids: Vec<D>) -> D {
        D { c, name: String::new(), num: 0, kids }
    }
    fn image(c: u8, idx: usize, kids: Vec<D>) -> D {
        D { c, name: String::new(), num: idx, kids }
    }
    fn depth(&self) -> usize {
        1 + self.kids.iter().map(|k| k.depth()).max().unwrap_or(0)
    }
}

/// canonical form of a description
fn dcanon(d: &D) -> String {
    let tag = CTOR_TAGS[d.c as usize];
    match d.c {
        PLACEHOLDER => "_".to_string(),
        INTERVAL => format!("N({})", d.num),
        c if is_atom_c(c) => format!("{tag}({:?})", d.name),
        c if is_unordered_c(c) => {
            let mut v: Vec<String> = d.kids.iter().map(dcanon).collect();
            v.sort();
            v.dedup();
            format!("{tag}{{{}}}", v.join(","))
        }
        c if is_symmetric_c(c) => {
            let mut v: Vec<String> = d.kids.iter().map(dcanon).collect();
            v.sort();
            format!("{tag}<{}>", v.join(","))
        }
        c if is_image_c(c) => {
            let v: Vec<String> = d.kids.iter().map(dcanon).collect();
            format!("{tag}@{}[{}]", d.num, v.join(","))
        }
        _ => {
            let v: Vec<String> = d.kids.iter().map(dcanon).collect();
            format!("{tag}[{}]", v.join(","))
        }
    }
}

/// canonical form of a library term, computed from its public fields only
fn canon(t: &Term) -> String {
    fn set(tag: &str, s: &HashSet<Term>) -> String {
        let mut v: Vec<String> = s.iter().map(canon).collect();
        v.sort();
        v.dedup();
        format!("{tag}{{{}}}", v.join(","))
    }
    fn seq(tag: &str, s: &[Term]) -> String {
        let v: Vec<String> = s.iter().map(canon).collect();
        format!("{tag}[{}]", v.join(","))
    }
    fn bin(tag: &str, a: &Term, b: &Term) -> String {
        format!("{tag}[{},{}]", canon(a), canon(b))
    }
    fn sym(tag: &str, a: &Term, b: &Term) -> String {
        let mut v = vec![canon(a), canon(b)];
        v.sort();
        format!("{tag}<{}>", v.join(","))
    }
    fn img(tag: &str, i: usize, s: &[Term]) -> String {
        let v: Vec<String> = s.iter().map(canon).collect();
        format!("{tag}@{}[{}]", i, v.join(","))
    }
    match t {
        Term::Word(n) => format!("W({n:?})"),
        Term::Placeholder => "_".to_string(),
        Term::VariableIndependent(n) => format!("I({n:?})"),
        Term::VariableDependent(n) => format!("D({n:?})"),
        Term::VariableQuery(n) => format!("Q({n:?})"),
        Term::Interval(i) => format!("N({i})"),
        Term::Operator(n) => format!("O({n:?})"),
        Term::SetExtension(s) => set("SE", s),
        Term::SetIntension(s) => set("SI", s),
        Term::IntersectionExtension(s) => set("IE", s),
        Term::IntersectionIntension(s) => set("II", s),
        Term::DifferenceExtension(a, b) => bin("DE", a, b),
        Term::DifferenceIntension(a, b) => bin("DI", a, b),
        Term::Product(v) => seq("PR", v),
        Term::ImageExtension(i, v) => img("ME", *i, v),
        Term::ImageIntension(i, v) => img("MI", *i, v),
        Term::Conjunction(s) => set("CJ", s),
        Term::Disjunction(s) => set("DJ", s),
        Term::Negation(a) => format!("NG[{}]", canon(a)),
        Term::ConjunctionSequential(v) => seq("SQ", v),
        Term::ConjunctionParallel(s) => set("PA", s),
        Term::Inheritance(a, b) => bin("INH", a, b),
        Term::Similarity(a, b) => sym("SIM", a, b),
        Term::Implication(a, b) => bin("IMP", a, b),
        Term::Equivalence(a, b) => sym("EQV", a, b),
        Term::ImplicationPredictive(a, b) => bin("IMPP", a, b),
        Term::ImplicationConcurrent(a, b) => bin("IMPC", a, b),
        Term::ImplicationRetrospective(a, b) => bin("IMPR", a, b),
        Term::EquivalencePredictive(a, b) => bin("EQVP", a, b),
        Term::EquivalenceConcurrent(a, b) => sym("EQVC", a, b),
    }
}

fn canon_truth(t: &Truth) -> String {
    match t {
        Truth::Empty => "T()".into(),
        Truth::Single(f) => format!("T({f:?})"),
        Truth::Double(f, c) => format!("T({f:?},{c:?})"),
    }
}
fn canon_budget(b: &Budget) -> String {
    match b {
        Budget::Empty => "B()".into(),
        Budget::Single(p) => format!("B({p:?})"),
        Budget::Double(p, d) => format!("B({p:?},{d:?})"),
        Budget::Triple(p, d, q) => format!("B({p:?},{d:?},{q:?})"),
    }
}
fn canon_stamp(s: &Stamp) -> String {
    match s {
        Stamp::Eternal => "S:eternal".into(),
        Stamp::Past => "S:past".into(),
        Stamp::Present => "S:present".into(),
        Stamp::Future => "S:future".into(),
        Stamp::Fixed(t) => format!("S:fixed({t})"),
    }
}
fn canon_sentence(s: &Sentence) -> String {
    match s {
        Sentence::Judgement(t, tr, st) => {
            format!("J[{} {} {}]", canon(t), canon_truth(tr), canon_stamp(st))
        }
        Sentence::Goal(t, tr, st) => {
            format!("G[{} {} {}]", canon(t), canon_truth(tr), canon_stamp(st))
        }
        Sentence::Question(t, st) => format!("Q[{} {}]", canon(t), canon_stamp(st)),
        Sentence::Quest(t, st) => format!("U[{} {}]", canon(t), canon_stamp(st)),
    }
}
fn canon_task(t: &Task) -> String {
    format!("TASK[{} {}]", canon_budget(&t.1), canon_sentence(&t.0))
}
fn canon_narsese(n: &Narsese) -> String {
    match n {
        NarseseValue::Term(t) => format!("term:{}", canon(t)),
        NarseseValue::Sentence(s) => format!("sentence:{}", canon_sentence(s)),
        NarseseValue::Task(t) => format!("task:{}", canon_task(t)),
    }
}
fn canon_result<E>(r: &Result<Narsese, E>) -> String {
    match r {
        Ok(v) => canon_narsese(v),
        Err(_) => "ERR".to_string(),
    }
}

// ---------------------------------------------------------------------------------------------
// building library terms from descriptions
// ---------------------------------------------------------------------------------------------

/// Build a library term from a description with the public constructors.
/// With `Some(rng)`: components of unordered compounds are inserted in a random order (sometimes with
/// a duplicate) and operands of symmetric statements are sometimes swapped.
fn build(d: &D, rng: &mut Option<&mut Rng>) -> Term {
    let mut kids: Vec<Term> = d.kids.iter().map(|k| build(k, rng)).collect();
    if let Some(r) = rng.as_mut() {
        if is_unordered_c(d.c) {
            if !d.kids.is_empty() && r.chance(1, 3) {
                let i = r.below(d.kids.len());
                let dup = build(&d.kids[i], &mut Some(&mut **r));
                kids.push(dup);
            }
            r.shuffle(&mut kids);
        }
        if is_symmetric_c(d.c) && r.chance(1, 2) {
            kids.swap(0, 1);
        }
    }
    let mut it = kids.into_iter();
    let mut two = || {
        let a = it.next().unwrap();
        let b = it.next().unwrap();
        (a, b)
    };
    match d.c {
        WORD => Term::new_word(d.name.as_str()),
        PLACEHOLDER => Term::new_placeholder(),
        IVAR => Term::new_variable_independent(d.name.as_str()),
        DVAR => Term::new_variable_dependent(d.name.as_str()),
        QVAR => Term::new_variable_query(d.name.as_str()),
        INTERVAL => Term::new_interval(d.num),
        OPERATOR => Term::new_operator(d.name.as_str()),
        SET_EXT => Term::new_set_extension(it),
        SET_INT => Term::new_set_intension(it),
        INTER_EXT => Term::new_intersection_extension(it),
        INTER_INT => Term::new_intersection_intension(it),
        DIFF_EXT => {
            let (a, b) = two();
            Term::new_difference_extension(a, b)
        }
        DIFF_INT => {
            let (a, b) = two();
            Term::new_difference_intension(a, b)
        }
        PRODUCT => Term::new_product(it),
        IMAGE_EXT => Term::new_image_extension(d.num, it),
        IMAGE_INT => Term::new_image_intension(d.num, it),
        CONJ => Term::new_conjunction(it),
        DISJ => Term::new_disjunction(it),
        NEG => Term::new_negation(it.next().unwrap()),
        SEQ => Term::new_conjunction_sequential(it),
        PAR => Term::new_conjunction_parallel(it),
        INH => {
            let (a, b) = two();
            Term::new_inheritance(a, b)
        }
        SIM => {
            let (a, b) = two();
            Term::new_similarity(a, b)
        }
        IMPL => {
            let (a, b) = two();
            Term::new_implication(a, b)
        }
        EQUIV => {
            let (a, b) = two();
            Term::new_equivalence(a, b)
        }
        IMPL_PRED => {
            let (a, b) = two();
            Term::new_implication_predictive(a, b)
        }
        IMPL_CONC => {
            let (a, b) = two();
            Term::new_implication_concurrent(a, b)
        }
        IMPL_RETRO => {
            let (a, b) = two();
            Term::new_implication_retrospective(a, b)
        }
        EQUIV_PRED => {
            let (a, b) = two();
            Term::new_equivalence_predictive(a, b)
        }
        EQUIV_CONC => {
            let (a, b) = two();
            Term::new_equivalence_concurrent(a, b)
        }
        _ => unreachable!(),
    }
}
fn build_plain(d: &D) -> Term {
    build(d, &mut None)
}
fn build_shuffled(d: &D, rng: &mut Rng) -> Term {
    build(d, &mut Some(rng))
}

// ---------------------------------------------------------------------------------------------
// generators
// ---------------------------------------------------------------------------------------------

const LETTERS: &[u8] = b"abcdefghijklmnopqrstuvwxyzABCDEFGHIJKLMNOPQRSTUVWXYZ";
const NAME_MID: &[u8] = b"abcdefghijklmnopqrstuvwxyzABCDEFGHIJKLMNOPQRSTUVWXYZ0123456789_";

/// ASCII identifier: letter first; letters, digits, inner '_' and single inner '-' afterwards
fn gen_name(rng: &mut Rng) -> String {
    const FIXED: [&str; 12] = [
        "a", "b", "c", "SELF", "go-to", "x1", "robin", "A_b", "t", "e2e", "z-9-q", "Word_0",
    ];
    if rng.chance(1, 2) {
        return rng.pick(&FIXED).to_string();
    }
    let len = rng.range(1, 6);
    let mut s = String::new();
    s.push(*rng.pick(LETTERS) as char);
    for i in 1..len {
        let last = i + 1 == len;
        if !last && !s.ends_with('-') && rng.chance(1, 8) {
            s.push('-');
        } else if last {
            // ('_' and '-' only inside: a trailing one could be read as the start of a copula)
            s.push(*rng.pick(&NAME_MID[..62]) as char);
        } else {
            s.push(*rng.pick(NAME_MID) as char);
        }
    }
    s
}

/// small name pool (to provoke equal terms)
fn gen_name_small(rng: &mut Rng) -> String {
    rng.pick(&["a", "b", "c"]).to_string()
}

#[derive(Clone, Copy)]
struct GenCfg {
    small_names: bool,
    /// maximal number of components of unordered compounds
    max_unordered: usize,
    /// allow a bare placeholder as an ordinary component of products / sets (never of images)
    loose_placeholder: bool,
}
const CFG_STD: GenCfg = GenCfg { small_names: false, max_unordered: 3, loose_placeholder: false };
const CFG_SMALL: GenCfg = GenCfg { small_names: true, max_unordered: 3, loose_placeholder: false };
const CFG_ORDERED: GenCfg = GenCfg { small_names: false, max_unordered: 1, loose_placeholder: false };

fn gen_atom_d(rng: &mut Rng, cfg: &GenCfg) -> D {
    let name = if cfg.small_names { gen_name_small(rng) } else { gen_name(rng) };
    match rng.below(10) {
        0..=4 => D::atom(WORD, &name),
        5 => D::atom(IVAR, &name),
        6 => D::atom(DVAR, &name),
        7 => D::atom(QVAR, &name),
        8 => D::atom(OPERATOR, &name),
        _ => {
            let n = if cfg.small_names {
                rng.below(3)
            } else {
                *rng.pick(&[0usize, 1, 7, 42, 30000, usize::MAX, 1234567890123])
            };
            D::interval(n)
        }
    }
}

/// random description with the given constructor at the root
fn gen_d_with_ctor(rng: &mut Rng, c: u8, depth: usize, cfg: &GenCfg) -> D {
    let sub = |rng: &mut Rng| gen_d(rng, depth.saturating_sub(1), cfg);
    match c {
        PLACEHOLDER => D::placeholder(),
        INTERVAL => {
            let mut d = gen_atom_d(rng, cfg);
            while d.c != INTERVAL {
                d = gen_atom_d(rng, cfg);
            }
            d
        }
        c if is_atom_c(c) => {
            let name = if cfg.small_names { gen_name_small(rng) } else { gen_name(rng) };
            D::atom(c, &name)
        }
        c if is_unordered_c(c) => {
            let n = rng.range(1, cfg.max_unordered.max(1));
            D::node(c, (0..n).map(|_| sub(rng)).collect())
        }
        c if is_seq_c(c) => {
            let n = rng.range(1, 4);
            let mut kids: Vec<D> = (0..n).map(|_| sub(rng)).collect();
            if cfg.loose_placeholder && rng.chance(1, 6) {
                let i = rng.below(kids.len());
                kids[i] = D::placeholder();
            }
            D::node(c, kids)
        }
        c if is_image_c(c) => {
            let n = rng.range(1, 3);
            let idx = rng.range(0, n);
            D::image(c, idx, (0..n).map(|_| sub(rng)).collect())
        }
        NEG => D::node(c, vec![sub(rng)]),
        _ => D::node(c, vec![sub(rng), sub(rng)]),
    }
}

fn gen_d(rng: &mut Rng, depth: usize, cfg: &GenCfg) -> D {
    if depth == 0 || rng.chance(1, 4) {
        return gen_atom_d(rng, cfg);
    }
    let c = rng.range(SET_EXT as usize, (N_CTORS - 1) as usize) as u8;
    gen_d_with_ctor(rng, c, depth, cfg)
}

/// one description per constructor (30 of them, images with every index), built over random sub-terms
fn gen_all_ctors(rng: &mut Rng, depth: usize, cfg: &GenCfg) -> Vec<D> {
    let mut v = vec![];
    for c in 0..N_CTORS {
        if is_image_c(c) {
            for n in 1..=3usize {
                for idx in 0..=n {
                    let kids = (0..n).map(|_| gen_d(rng, depth.saturating_sub(1), cfg)).collect();
                    v.push(D::image(c, idx, kids));
                }
            }
        } else {
            v.push(gen_d_with_ctor(rng, c, depth, cfg));
        }
    }
    v
}

const FLOAT_POOL: [f64; 12] = [
    0.0,
    1.0,
    0.5,
    0.9,
    0.75,
    0.4,
    0.123456789,
    0.0000001,
    0.30000000000000004,
    0.9999999999999999,
    0.01,
    0.25,
];
fn gen_float(rng: &mut Rng) -> f64 {
    if rng.chance(3, 4) {
        *rng.pick(&FLOAT_POOL)
    } else {
        // a multiple of 1/1024 prints exactly
        rng.below(1025) as f64 / 1024.0
    }
}
fn gen_truth(rng: &mut Rng) -> Truth {
    match rng.below(3) {
        0 => Truth::new_empty(),
        1 => Truth::new_single(gen_float(rng)),
        _ => Truth::new_double(gen_float(rng), gen_float(rng)),
    }
}
fn gen_budget(rng: &mut Rng) -> Budget {
    match rng.below(4) {
        0 => Budget::new_empty(),
        1 => Budget::new_single(gen_float(rng)),
        2 => Budget::new_double(gen_float(rng), gen_float(rng)),
        _ => Budget::new_triple(gen_float(rng), gen_float(rng), gen_float(rng)),
    }
}
const FIXED_TIMES: [isize; 8] = [0, 1, -1, 42, -137, isize::MAX, isize::MIN, 1234567890];
fn gen_stamp(rng: &mut Rng) -> Stamp {
    match rng.below(6) {
        0 => Stamp::Eternal,
        1 => Stamp::Past,
        2 => Stamp::Present,
        3 => Stamp::Future,
        _ => Stamp::Fixed(*rng.pick(&FIXED_TIMES)),
    }
}
const PUNCTS: [Punctuation; 4] = [
    Punctuation::Judgement,
    Punctuation::Goal,
    Punctuation::Question,
    Punctuation::Quest,
];
fn punct_index(p: &Punctuation) -> usize {
    match p {
        Punctuation::Judgement => 0,
        Punctuation::Goal => 1,
        Punctuation::Question => 2,
        Punctuation::Quest => 3,
    }
}
/// sentence from explicit parts, through the specific constructors / variants
/// (NOT through `Sentence::from_punctuation`, which is itself under test)
fn make_sentence(term: Term, p: &Punctuation, stamp: Stamp, truth: Truth) -> Sentence {
    match p {
        Punctuation::Judgement => Sentence::Judgement(term, truth, stamp),
        Punctuation::Goal => Sentence::new_goal(term, truth, stamp),
        Punctuation::Question => Sentence::new_question(term, stamp),
        Punctuation::Quest => Sentence::Quest(term, stamp),
    }
}
fn gen_sentence_of(rng: &mut Rng, term: Term) -> Sentence {
    let p = rng.pick(&PUNCTS).clone();
    let (stamp, truth) = (gen_stamp(rng), gen_truth(rng));
    make_sentence(term, &p, stamp, truth)
}
/// random narsese value (term / sentence / task) around a description
fn gen_narsese_of(rng: &mut Rng, d: &D) -> Narsese {
    let term = build_shuffled(d, rng);
    match rng.below(3) {
        0 => Narsese::from_term(term),
        1 => Narsese::from_sentence(gen_sentence_of(rng, term)),
        _ => {
            let s = gen_sentence_of(rng, term);
            Narsese::from_task(Task::new(s, gen_budget(rng)))
        }
    }
}
/// all punctuation x stamp x truth x (no budget + 4 budgets) combinations around one term
fn all_items_of(term: &Term) -> Vec<Narsese> {
    let stamps = [
        Stamp::Eternal,
        Stamp::Past,
        Stamp::Present,
        Stamp::Future,
        Stamp::Fixed(0),
        Stamp::Fixed(-1),
        Stamp::Fixed(isize::MAX),
        Stamp::Fixed(isize::MIN),
    ];
    let truths = [Truth::new_empty(), Truth::new_single(1.0), Truth::new_double(0.5, 0.9)];
    let budgets = [
        None,
        Some(Budget::new_empty()),
        Some(Budget::new_single(0.5)),
        Some(Budget::new_double(1.0, 0.0)),
        Some(Budget::new_triple(0.5, 0.75, 0.4)),
    ];
    let mut v = vec![];
    for p in PUNCTS.iter() {
        for st in stamps.iter() {
            for tr in truths.iter() {
                for b in budgets.iter() {
                    let s = make_sentence(term.clone(), p, st.clone(), tr.clone());
                    v.push(match b {
                        None => Narsese::from_sentence(s),
                        Some(b) => Narsese::from_task(Task::new(s, b.clone())),
                    });
                }
            }
        }
    }
    v
}

fn kind_of<A, B, C>(n: &NarseseValue<A, B, C>) -> &'static str {
    match n {
        NarseseValue::Term(..) => "term",
        NarseseValue::Sentence(..) => "sentence",
        NarseseValue::Task(..) => "task",
    }
}

// ---------------------------------------------------------------------------------------------
// reference formatter (token based)
// ---------------------------------------------------------------------------------------------

/// a token and the standard gap that follows it in the library's output
type Toks = Vec<(String, &'static str)>;

fn tk(out: &mut Toks, s: &str, gap: &'static str) {
    if s.is_empty() {
        // an empty token: its gap is merged into the previous token
        if let Some(last) = out.last_mut() {
            if last.1.is_empty() {
                last.1 = gap;
            }
        }
        return;
    }
    out.push((s.to_string(), gap));
}

fn ref_term_toks(out: &mut Toks, t: &Term, v: &'static Vocab) {
    let sp = v.space_terms;
    fn atom(out: &mut Toks, prefix: &str, name: &str) {
        out.push((format!("{prefix}{name}"), ""));
    }
    let comps = |out: &mut Toks, items: Vec<Option<&Term>>| {
        // `None` = the image placeholder
        for (i, item) in items.into_iter().enumerate() {
            if i != 0 {
                tk(out, v.sep, sp);
            }
            match item {
                Some(t) => ref_term_toks(out, t, v),
                None => atom(out, v.prefix[1], ""),
            }
        }
    };
    let compound = |out: &mut Toks, c: u8, items: Vec<Option<&Term>>| {
        tk(out, v.br_compound.0, "");
        tk(out, v.connecter[(c - INTER_EXT) as usize], "");
        tk(out, v.sep, sp);
        comps(out, items);
        tk(out, v.br_compound.1, "");
    };
    let set = |out: &mut Toks, br: (&str, &str), items: Vec<Option<&Term>>| {
        tk(out, br.0, "");
        comps(out, items);
        tk(out, br.1, "");
    };
    let stmt = |out: &mut Toks, c: u8, a: &Term, b: &Term| {
        tk(out, v.br_stmt.0, "");
        ref_term_toks(out, a, v);
        if let Some(last) = out.last_mut() {
            last.1 = sp;
        }
        tk(out, v.copula[(c - INH) as usize], sp);
        ref_term_toks(out, b, v);
        tk(out, v.br_stmt.1, "");
    };
    fn some<'a>(i: impl Iterator<Item = &'a Term>) -> Vec<Option<&'a Term>> {
        i.map(Some).collect()
    }
    fn img<'a>(idx: usize, ts: &'a [Term]) -> Vec<Option<&'a Term>> {
        let mut r: Vec<Option<&Term>> = ts.iter().map(Some).collect();
        r.insert(idx.min(r.len()), None);
        r
    }
    match t {
        Term::Word(n) => atom(out, v.prefix[0], n),
        Term::Placeholder => atom(out, v.prefix[1], ""),
        Term::VariableIndependent(n) => atom(out, v.prefix[2], n),
        Term::VariableDependent(n) => atom(out, v.prefix[3], n),
        Term::VariableQuery(n) => atom(out, v.prefix[4], n),
        Term::Interval(i) => atom(out, v.prefix[5], &i.to_string()),
        Term::Operator(n) => atom(out, v.prefix[6], n),
        Term::SetExtension(s) => set(out, v.br_ext, some(s.iter())),
        Term::SetIntension(s) => set(out, v.br_int, some(s.iter())),
        Term::IntersectionExtension(s) => compound(out, INTER_EXT, some(s.iter())),
        Term::IntersectionIntension(s) => compound(out, INTER_INT, some(s.iter())),
        Term::DifferenceExtension(a, b) => compound(out, DIFF_EXT, vec![Some(a), Some(b)]),
        Term::DifferenceIntension(a, b) => compound(out, DIFF_INT, vec![Some(a), Some(b)]),
        Term::Product(s) => compound(out, PRODUCT, some(s.iter())),
        Term::ImageExtension(i, s) => compound(out, IMAGE_EXT, img(*i, s)),
        Term::ImageIntension(i, s) => compound(out, IMAGE_INT, img(*i, s)),
        Term::Conjunction(s) => compound(out, CONJ, some(s.iter())),
        Term::Disjunction(s) => compound(out, DISJ, some(s.iter())),
        Term::Negation(a) => compound(out, NEG, vec![Some(a)]),
        Term::ConjunctionSequential(s) => compound(out, SEQ, some(s.iter())),
        Term::ConjunctionParallel(s) => compound(out, PAR, some(s.iter())),
        Term::Inheritance(a, b) => stmt(out, INH, a, b),
        Term::Similarity(a, b) => stmt(out, SIM, a, b),
        Term::Implication(a, b) => stmt(out, IMPL, a, b),
        Term::Equivalence(a, b) => stmt(out, EQUIV, a, b),
        Term::ImplicationPredictive(a, b) => stmt(out, IMPL_PRED, a, b),
        Term::ImplicationConcurrent(a, b) => stmt(out, IMPL_CONC, a, b),
        Term::ImplicationRetrospective(a, b) => stmt(out, IMPL_RETRO, a, b),
        Term::EquivalencePredictive(a, b) => stmt(out, EQUIV_PRED, a, b),
        Term::EquivalenceConcurrent(a, b) => stmt(out, EQUIV_CONC, a, b),
    }
}

fn ref_floats_toks(out: &mut Toks, br: (&str, &str), sep: &str, fs: &[f64]) {
    tk(out, br.0, "");
    for (i, f) in fs.iter().enumerate() {
        if i != 0 {
            tk(out, sep, "");
        }
        tk(out, &f.to_string(), "");
    }
    tk(out, br.1, "");
}
fn truth_floats(t: &Truth) -> Vec<f64> {
    match t {
        Truth::Empty => vec![],
        Truth::Single(f) => vec![*f],
        Truth::Double(f, c) => vec![*f, *c],
    }
}
fn budget_floats(b: &Budget) -> Vec<f64> {
    match b {
        Budget::Empty => vec![],
        Budget::Single(p) => vec![*p],
        Budget::Double(p, d) => vec![*p, *d],
        Budget::Triple(p, d, q) => vec![*p, *d, *q],
    }
}
fn ref_stamp_toks(out: &mut Toks, s: &Stamp, v: &'static Vocab) {
    if let Stamp::Eternal = s {
        return;
    }
    tk(out, v.stamp_br.0, "");
    match s {
        Stamp::Past => tk(out, v.stamp_past, ""),
        Stamp::Present => tk(out, v.stamp_present, ""),
        Stamp::Future => tk(out, v.stamp_future, ""),
        Stamp::Fixed(t) => {
            tk(out, v.stamp_fixed, "");
            tk(out, &t.to_string(), "");
        }
        Stamp::Eternal => {}
    }
    tk(out, v.stamp_br.1, "");
}
fn set_last_gap(out: &mut Toks, gap: &'static str) {
    if let Some(last) = out.last_mut() {
        last.1 = gap;
    }
}
/// `item_sep`: the separator between punctuation, stamp and truth
fn ref_sentence_toks(out: &mut Toks, s: &Sentence, v: &'static Vocab, item_sep: &'static str) {
    let (term, p, stamp, truth): (&Term, usize, &Stamp, Option<&Truth>) = match s {
        Sentence::Judgement(t, tr, st) => (t, 0, st, Some(tr)),
        Sentence::Goal(t, tr, st) => (t, 1, st, Some(tr)),
        Sentence::Question(t, st) => (t, 2, st, None),
        Sentence::Quest(t, st) => (t, 3, st, None),
    };
    ref_term_toks(out, term, v);
    tk(out, v.punct[p], "");
    if !matches!(stamp, Stamp::Eternal) {
        set_last_gap(out, item_sep);
        ref_stamp_toks(out, stamp, v);
    }
    if let Some(tr) = truth {
        if !matches!(tr, Truth::Empty) {
            set_last_gap(out, item_sep);
            ref_floats_toks(out, v.truth_br, v.truth_sep, &truth_floats(tr));
        }
    }
}
fn ref_narsese_toks(n: &Narsese, f: F) -> Toks {
    let v = vocab(f);
    let mut out = vec![];
    match n {
        NarseseValue::Term(t) => ref_term_toks(&mut out, t, v),
        // the enum formatter separates punctuation / stamp / truth with `space.format_terms`
        NarseseValue::Sentence(s) => ref_sentence_toks(&mut out, s, v, v.space_terms),
        NarseseValue::Task(t) => {
            ref_floats_toks(&mut out, v.budget_br, v.budget_sep, &budget_floats(&t.1));
            set_last_gap(&mut out, v.space_items);
            ref_sentence_toks(&mut out, &t.0, v, v.space_terms);
        }
    }
    out
}
fn toks_std(toks: &Toks) -> String {
    let mut s = String::new();
    for (i, (t, gap)) in toks.iter().enumerate() {
        s.push_str(t);
        if i + 1 != toks.len() {
            s.push_str(gap);
        }
    }
    s
}
fn ref_format(n: &Narsese, f: F) -> String {
    toks_std(&ref_narsese_toks(n, f))
}
fn ref_format_term(t: &Term, f: F) -> String {
    let mut out = vec![];
    ref_term_toks(&mut out, t, vocab(f));
    toks_std(&out)
}
/// join tokens with the given gap generator
fn toks_spaced(toks: &Toks, mut gap: impl FnMut() -> String) -> String {
    let mut s = gap();
    for (t, _) in toks.iter() {
        s.push_str(t);
        s.push_str(&gap());
    }
    s
}

// ---------------------------------------------------------------------------------------------
// the two pipelines
// ---------------------------------------------------------------------------------------------

fn enum_parse(f: F, s: &str) -> Result<Narsese, String> {
    ef(f).parse::<Narsese>(s).map_err(|e| e.to_string())
}
fn lex_parse(f: F, s: &str) -> Result<lx::Narsese, String> {
    lf(f).parse(s).map_err(|e| e.to_string())
}
fn lex_fold(f: F, x: lx::Narsese) -> Result<Narsese, String> {
    let r: Result<Narsese, _> = x.try_fold_into(ef(f));
    r.map_err(|e| format!("{e:?}"))
}
fn lex_pipeline(f: F, s: &str) -> Result<Narsese, String> {
    lex_fold(f, lex_parse(f, s)?)
}

// ---------------------------------------------------------------------------------------------
// lexical generators
// ---------------------------------------------------------------------------------------------

fn lx_stamp_strings(f: F) -> Vec<String> {
    let v = vocab(f);
    let mut r = vec![String::new()];
    for k in [v.stamp_past, v.stamp_present, v.stamp_future] {
        r.push(format!("{}{}{}", v.stamp_br.0, k, v.stamp_br.1));
    }
    for t in ["0", "5", "-1", "+7", "114514", "-9223372036854775808"] {
        r.push(format!("{}{}{}{}", v.stamp_br.0, v.stamp_fixed, t, v.stamp_br.1));
    }
    r
}
const LX_NUMS_VALID: [&str; 9] = ["0", "1", "0.5", "1.0", "0.90", ".5", "00.1", "0.123", "1."];
const LX_NUMS_INVALID: [&str; 4] = ["1.5", "2", "10", "1.0000001"];

fn gen_lx_atom(rng: &mut Rng, f: F) -> lx::Term {
    let v = vocab(f);
    let k = match rng.below(10) {
        0..=3 => 0,
        4 => 2,
        5 => 3,
        6 => 4,
        7 => 5,
        8 => 6,
        _ => 0,
    };
    let name = if k == 5 {
        rng.pick(&["0", "7", "0042", "30000", "18446744073709551615"]).to_string()
    } else {
        gen_name(rng)
    };
    lx::Term::new_atom(v.prefix[k], name)
}
fn lx_placeholder(f: F) -> lx::Term {
    lx::Term::new_atom(vocab(f).prefix[1], "")
}
fn all_copulas(f: F) -> Vec<&'static str> {
    let v = vocab(f);
    v.copula.iter().chain(v.copula_derived.iter()).copied().collect()
}

/// `arity_valid`: negation has one component, differences two, images exactly one placeholder plus at
/// least one other component; otherwise any connecter goes with any number (>= 1) of components.
fn gen_lx_term(rng: &mut Rng, depth: usize, f: F, arity_valid: bool) -> lx::Term {
    let v = vocab(f);
    if depth == 0 || rng.chance(1, 4) {
        return gen_lx_atom(rng, f);
    }
    let sub = |rng: &mut Rng| gen_lx_term(rng, depth - 1, f, arity_valid);
    match rng.below(4) {
        0 => {
            let br = if rng.chance(1, 2) { v.br_ext } else { v.br_int };
            let n = rng.range(1, 3);
            lx::Term::new_set(br.0, (0..n).map(|_| sub(rng)).collect(), br.1)
        }
        1 | 2 => {
            let ci = rng.below(12);
            let c = INTER_EXT + ci as u8;
            let mut kids: Vec<lx::Term>;
            if arity_valid {
                let n = match c {
                    NEG => 1,
                    DIFF_EXT | DIFF_INT => 2,
                    _ => rng.range(1, 3),
                };
                kids = (0..n).map(|_| sub(rng)).collect();
                if is_image_c(c) {
                    let i = rng.range(0, kids.len());
                    kids.insert(i, lx_placeholder(f));
                }
            } else {
                let n = rng.range(1, 4);
                kids = (0..n).map(|_| sub(rng)).collect();
                if rng.chance(1, 4) {
                    let i = rng.range(0, kids.len());
                    kids.insert(i, lx_placeholder(f));
                }
            }
            lx::Term::new_compound(v.connecter[ci], kids)
        }
        _ => {
            let cops = all_copulas(f);
            let cop = *rng.pick(&cops);
            if rng.chance(1, 2) {
                lx::Term::new_statement(cop, sub(rng), sub(rng))
            } else {
                lx::Term::new_statement_infix(sub(rng), cop, sub(rng))
            }
        }
    }
}
fn gen_lx_nums(rng: &mut Rng, max: usize, allow_invalid: bool) -> Vec<String> {
    let n = rng.range(0, max);
    (0..n)
        .map(|_| {
            if allow_invalid && rng.chance(1, 12) {
                rng.pick(&LX_NUMS_INVALID).to_string()
            } else {
                rng.pick(&LX_NUMS_VALID).to_string()
            }
        })
        .collect()
}
/// `free`: any count of truth / budget entries; otherwise at most 2 / 3 (what the enum model can hold)
fn gen_lx_narsese(rng: &mut Rng, f: F, free: bool, allow_invalid_nums: bool) -> lx::Narsese {
    let v = vocab(f);
    let term = gen_lx_term(rng, 3, f, !free);
    let stamps = lx_stamp_strings(f);
    match rng.below(3) {
        0 => lx::Narsese::from_term(term),
        k => {
            let p = *rng.pick(&v.punct);
            let stamp = rng.pick(&stamps).clone();
            let truth = gen_lx_nums(rng, if free { 4 } else { 2 }, allow_invalid_nums);
            if k == 1 {
                lx::Narsese::from_sentence(lx::Sentence::new(term, p, stamp, truth))
            } else {
                let budget = gen_lx_nums(rng, if free { 5 } else { 3 }, allow_invalid_nums);
                lx::Narsese::from_task(lx::Task::new(budget, term, p, stamp, truth))
            }
        }
    }
}

// ---------------------------------------------------------------------------------------------
// C01
// ---------------------------------------------------------------------------------------------

/// checks of one enum value in one format: exact text, round trip (C01)
fn check_c01(v: &Narsese, f: F) {
    let fmt = ef(f);
    let s = fmt.format_narsese(v);
    let expected = ref_format(v, f);
    assert_eq!(s, expected, "C01 {f:?} text of {}", canon_narsese(v));
    // the generic entry and the specific entries agree
    let s2 = fmt.format(v);
    assert_eq!(s2, s, "C01 {f:?} `format` vs `format_narsese` of {s:?}");
    let s3 = match v {
        NarseseValue::Term(t) => fmt.format_term(t),
        NarseseValue::Sentence(x) => fmt.format_sentence(x),
        NarseseValue::Task(x) => fmt.format_task(x),
    };
    assert_eq!(s3, s, "C01 {f:?} specific format entry of {s:?}");
    // round trip
    let back = fmt.parse::<Narsese>(&s);
    let back = match back {
        Ok(b) => b,
        Err(e) => panic!("C01 {f:?} round trip of {s:?} failed to parse: {e}"),
    };
    assert_eq!(kind_of(&back), kind_of(v), "C01 {f:?} kind after round trip of {s:?}");
    assert_eq!(
        canon_narsese(&back),
        canon_narsese(v),
        "C01 {f:?} round trip (canonical form) of {s:?}"
    );
    assert_eq!(back, *v, "C01 {f:?} round trip of {s:?}");
    assert!(*v == back, "C01 {f:?} round trip (symmetric ==) of {s:?}");
}

#[test]
fn oracle_c01() {
    let mut rng = Rng::new(0xC01);
    let mut n_cases = 0usize;
    // (1) every constructor (images with every placeholder index) as term, sentence and task
    for round in 0..3 {
        for d in gen_all_ctors(&mut rng, 2, &CFG_STD) {
            let term = build_shuffled(&d, &mut rng);
            assert_eq!(canon(&term), dcanon(&d), "C01 builder vs description {d:?}");
            let values = [
                Narsese::from_term(term.clone()),
                Narsese::from_sentence(gen_sentence_of(&mut rng, term.clone())),
                Narsese::from_task(Task::new(
                    gen_sentence_of(&mut rng, term.clone()),
                    gen_budget(&mut rng),
                )),
            ];
            for v in values.iter() {
                for f in FORMATS {
                    check_c01(v, f);
                    n_cases += 1;
                }
            }
        }
        let _ = round;
    }
    // (2) every punctuation x stamp x truth x budget combination
    for d in [D::word("robin"), D::atom(IVAR, "x"), D::atom(QVAR, "q"), D::interval(5)] {
        let term = build_plain(&d);
        for v in all_items_of(&term) {
            for f in FORMATS {
                check_c01(&v, f);
                n_cases += 1;
            }
        }
    }
    // (3) random deep values
    for _ in 0..500 {
        let d = gen_d(&mut rng, 4, &CFG_STD);
        let v = gen_narsese_of(&mut rng, &d);
        for f in FORMATS {
            check_c01(&v, f);
            n_cases += 1;
        }
    }
    // (4) non-ASCII identifiers (not in Han: Han keywords are themselves CJK identifiers)
    for name in ["词项", "名前", "été", "🌹🌹", "Ωmega", "数1"] {
        for c in [WORD, IVAR, DVAR, QVAR, OPERATOR] {
            let d = D::node(INH, vec![D::atom(c, name), D::node(SET_EXT, vec![D::atom(c, name)])]);
            let term = build_plain(&d);
            let v = Narsese::from_sentence(Sentence::new_judgement(
                term,
                Truth::new_double(1.0, 0.9),
                Stamp::Present,
            ));
            check_c01(&v, F::Ascii);
            check_c01(&v, F::Latex);
            n_cases += 2;
        }
    }
    // (5) a few fully spelled-out expectations
    let t = Term::new_inheritance(
        Term::new_product(vec![
            Term::new_set_extension(vec![Term::new_word("SELF")]),
            Term::new_variable_independent("any"),
            Term::new_variable_dependent("some"),
        ]),
        Term::new_operator("do"),
    );
    let task = Task::new(
        Sentence::new_judgement(t, Truth::new_double(1.0, 0.9), Stamp::Fixed(-1)),
        Budget::new_triple(0.5, 0.75, 0.4),
    );
    assert_eq!(
        E_ASCII.format_task(&task),
        "$0.5;0.75;0.4$ <(*, {SELF}, $any, #some) --> ^do>. :!-1: %1;0.9%",
        "C01 ASCII sample task text"
    );
    assert_eq!(
        E_LATEX.format_task(&task),
        r"\$0.5;0.75;0.4\$ \left<\left(\times{}\; \left\{SELF\right\}\; \$any\; \#some\right) \rightarrow{} \Uparrow{}do\right>. t=-1 \langle{}1,0.9\rangle{}",
        "C01 LaTeX sample task text"
    );
    assert_eq!(
        E_HAN.format_task(&task),
        "预0.5、0.75、0.4算 「（积，『SELF』，任一any，其一some）是操作do」。发生在-1真1、0.9值",
        "C01 Han sample task text"
    );
    assert_eq!(
        E_ASCII.format_term(&Term::new_image_extension(
            1,
            vec![Term::new_word("a"), Term::new_word("b")]
        )),
        "(/, a, _, b)",
        "C01 ASCII image text"
    );
    assert_eq!(
        E_ASCII.format_term(&Term::new_image_intension(
            2,
            vec![Term::new_word("a"), Term::new_word("b")]
        )),
        "(\\, a, b, _)",
        "C01 ASCII image text"
    );
    // stand-alone item formatters / parsers
    for f in FORMATS {
        let fmt = ef(f);
        let v = vocab(f);
        for (i, p) in PUNCTS.iter().enumerate() {
            assert_eq!(fmt.format_punctuation(p), v.punct[i], "C01 {f:?} punctuation text");
            assert_eq!(fmt.format(p), v.punct[i], "C01 {f:?} punctuation text (generic)");
            let back = fmt.parse::<Punctuation>(v.punct[i]);
            assert_eq!(back.ok().as_ref(), Some(p), "C01 {f:?} punctuation parse of {:?}", v.punct[i]);
        }
        for st in [
            Stamp::Eternal,
            Stamp::Past,
            Stamp::Present,
            Stamp::Future,
            Stamp::Fixed(0),
            Stamp::Fixed(-42),
            Stamp::Fixed(isize::MAX),
            Stamp::Fixed(isize::MIN),
        ] {
            let mut toks = vec![];
            ref_stamp_toks(&mut toks, &st, v);
            let expected = toks_std(&toks);
            assert_eq!(fmt.format_stamp(&st), expected, "C01 {f:?} stamp text of {st:?}");
            assert_eq!(fmt.format(&st), expected, "C01 {f:?} stamp text (generic) of {st:?}");
            let back = fmt.parse::<Stamp>(&expected);
            assert_eq!(back.ok(), Some(st.clone()), "C01 {f:?} stamp parse of {expected:?}");
            assert_eq!(st.is_eternal(), matches!(st, Stamp::Eternal), "C01 is_eternal of {st:?}");
            assert_eq!(st.is_fixed(), matches!(st, Stamp::Fixed(_)), "C01 is_fixed of {st:?}");
        }
        for _ in 0..30 {
            let tr = gen_truth(&mut rng);
            let mut toks = vec![];
            if !matches!(tr, Truth::Empty) {
                ref_floats_toks(&mut toks, v.truth_br, v.truth_sep, &truth_floats(&tr));
            }
            let expected = toks_std(&toks);
            assert_eq!(fmt.format_truth(&tr), expected, "C01 {f:?} truth text of {tr:?}");
            assert_eq!(fmt.format(&tr), expected, "C01 {f:?} truth text (generic) of {tr:?}");
            if !matches!(tr, Truth::Empty) {
                let back = fmt.parse::<Truth>(&expected).ok();
                assert_eq!(
                    back.as_ref().map(canon_truth),
                    Some(canon_truth(&tr)),
                    "C01 {f:?} truth parse of {expected:?}"
                );
            }
            let b = gen_budget(&mut rng);
            let mut toks = vec![];
            ref_floats_toks(&mut toks, v.budget_br, v.budget_sep, &budget_floats(&b));
            let expected = toks_std(&toks);
            assert_eq!(fmt.format_budget(&b), expected, "C01 {f:?} budget text of {b:?}");
            assert_eq!(fmt.format(&b), expected, "C01 {f:?} budget text (generic) of {b:?}");
            let back = fmt.parse::<Budget>(&expected).ok();
            assert_eq!(
                back.as_ref().map(canon_budget),
                Some(canon_budget(&b)),
                "C01 {f:?} budget parse of {expected:?}"
            );
        }
    }
    assert!(n_cases > 1000);
}

// ---------------------------------------------------------------------------------------------
// C02
// ---------------------------------------------------------------------------------------------

/// reference text of a lexical value
fn ref_lx_term(t: &lx::Term, f: F, out: &mut String) {
    let v = vocab(f);
    let comps = |terms: &Vec<lx::Term>, out: &mut String| {
        for (i, t) in terms.iter().enumerate() {
            if i != 0 {
                out.push_str(v.sep);
                out.push_str(v.space_terms);
            }
            ref_lx_term(t, f, out);
        }
    };
    match t {
        lx::Term::Atom { prefix, name } => {
            out.push_str(prefix);
            out.push_str(name);
        }
        lx::Term::Compound { connecter, terms } => {
            out.push_str(v.br_compound.0);
            out.push_str(connecter);
            out.push_str(v.sep);
            out.push_str(v.space_terms);
            comps(terms, out);
            out.push_str(v.br_compound.1);
        }
        lx::Term::Set { left_bracket, terms, right_bracket } => {
            out.push_str(left_bracket);
            comps(terms, out);
            out.push_str(right_bracket);
        }
        lx::Term::Statement { copula, subject, predicate } => {
            out.push_str(v.br_stmt.0);
            ref_lx_term(subject, f, out);
            out.push_str(v.space_terms);
            out.push_str(copula);
            out.push_str(v.space_terms);
            ref_lx_term(predicate, f, out);
            out.push_str(v.br_stmt.1);
        }
    }
}
fn ref_lx_sentence(s: &lx::Sentence, f: F, out: &mut String) {
    let v = vocab(f);
    ref_lx_term(&s.term, f, out);
    out.push_str(&s.punctuation);
    if !s.stamp.is_empty() {
        out.push_str(v.space_items);
        out.push_str(&s.stamp);
    }
    if !s.truth.is_empty() {
        out.push_str(v.space_items);
        out.push_str(v.truth_br.0);
        out.push_str(&s.truth.join(v.truth_sep));
        out.push_str(v.truth_br.1);
    }
}
fn ref_lx_format(x: &lx::Narsese, f: F) -> String {
    let v = vocab(f);
    let mut out = String::new();
    match x {
        NarseseValue::Term(t) => ref_lx_term(t, f, &mut out),
        NarseseValue::Sentence(s) => ref_lx_sentence(s, f, &mut out),
        NarseseValue::Task(t) => {
            out.push_str(v.budget_br.0);
            out.push_str(&t.budget.join(v.budget_sep));
            out.push_str(v.budget_br.1);
            out.push_str(v.space_items);
            ref_lx_sentence(&t.sentence, f, &mut out);
        }
    }
    out
}

fn check_c02(x: &lx::Narsese, f: F) {
    let fmt = lf(f);
    let s = fmt.format_narsese(x);
    assert_eq!(s, ref_lx_format(x, f), "C02 {f:?} lexical text of {x:?}");
    let s2 = match x {
        NarseseValue::Term(t) => fmt.format_term(t),
        NarseseValue::Sentence(t) => fmt.format_sentence(t),
        NarseseValue::Task(t) => fmt.format_task(t),
    };
    assert_eq!(s2, s, "C02 {f:?} specific lexical format entry of {s:?}");
    assert_eq!(fmt.format(x), s, "C02 {f:?} generic lexical format entry of {s:?}");
    match fmt.parse(&s) {
        Ok(back) => {
            assert_eq!(format!("{back:?}"), format!("{x:?}"), "C02 {f:?} round trip (debug) of {s:?}");
            assert_eq!(&back, x, "C02 {f:?} round trip of {s:?}");
        }
        Err(e) => panic!("C02 {f:?} round trip of {s:?} failed to parse: {e}"),
    }
    if let NarseseValue::Term(t) = x {
        match fmt.parse_term(&s) {
            Ok(back) => assert_eq!(&back, t, "C02 {f:?} parse_term round trip of {s:?}"),
            Err(e) => panic!("C02 {f:?} parse_term of {s:?} failed: {e}"),
        }
        // the free function is the same thing
        let back = narsese::conversion::string::impl_lexical::parse_term(fmt, &s);
        assert_eq!(back.ok().as_ref(), Some(t), "C02 {f:?} free parse_term of {s:?}");
    }
    let back = narsese::conversion::string::impl_lexical::parse(fmt, &s);
    assert_eq!(back.ok().as_ref(), Some(x), "C02 {f:?} free parse of {s:?}");
}

#[test]
fn oracle_c02() {
    let mut rng = Rng::new(0xC02);
    for f in FORMATS {
        let v = vocab(f);
        // every prefix, connecter, bracket pair, copula, punctuation, stamp once, systematically
        let a = lx::Term::new_atom("", "a");
        let b = lx::Term::new_atom(v.prefix[2], "b");
        let mut terms: Vec<lx::Term> = vec![];
        for (k, p) in v.prefix.iter().enumerate() {
            let name = match k {
                1 => "",
                5 => "42",
                _ => "name-1",
            };
            terms.push(lx::Term::new_atom(*p, name));
        }
        for c in v.connecter.iter() {
            for n in 1..=3 {
                let mut kids = vec![a.clone(), b.clone(), lx_placeholder(f)];
                kids.truncate(n);
                terms.push(lx::Term::new_compound(*c, kids));
            }
        }
        for br in [v.br_ext, v.br_int] {
            terms.push(lx::Term::new_set(br.0, vec![a.clone()], br.1));
            terms.push(lx::Term::new_set(br.0, vec![a.clone(), b.clone(), a.clone()], br.1));
        }
        for c in all_copulas(f) {
            terms.push(lx::Term::new_statement(c, a.clone(), b.clone()));
            terms.push(lx::Term::new_statement(c, terms[terms.len() - 2].clone(), a.clone()));
        }
        let stamps = lx_stamp_strings(f);
        for (i, t) in terms.iter().enumerate() {
            check_c02(&lx::Narsese::from_term(t.clone()), f);
            let p = v.punct[i % 4];
            let stamp = stamps[i % stamps.len()].clone();
            let truth: Vec<String> =
                LX_NUMS_VALID.iter().take(i % 4).map(|s| s.to_string()).collect();
            let budget: Vec<String> =
                LX_NUMS_VALID.iter().skip(2).take(i % 5).map(|s| s.to_string()).collect();
            let s = lx::Sentence::new(t.clone(), p, stamp.clone(), truth.clone());
            assert_eq!(s.get_term(), t, "C02 lexical sentence term accessor");
            check_c02(&lx::Narsese::from_sentence(s), f);
            check_c02(
                &lx::Narsese::from_task(lx::Task::new(budget, t.clone(), p, stamp, truth)),
                f,
            );
        }
        // random
        for _ in 0..250 {
            let x = gen_lx_narsese(&mut rng, f, true, true);
            check_c02(&x, f);
        }
    }
    // spelled-out expectation
    let x = lx::Task::new(
        vec!["0.5".to_string(), "0.75".to_string()],
        lx::Term::new_statement(
            "{-]",
            lx::Term::new_atom("", "ball"),
            lx::Term::new_compound("&/", vec![lx::Term::new_atom("^", "go-to"), lx::Term::new_atom("+", "5")]),
        ),
        ".",
        ":!-1:",
        vec!["1.0".to_string(), "0.9".to_string()],
    );
    assert_eq!(
        lfi::FORMAT_ASCII.format_task(&x),
        "$0.5;0.75$ <ball {-] (&/, ^go-to, +5)>. :!-1: %1.0;0.9%",
        "C02 ASCII lexical sample text"
    );
}

// ---------------------------------------------------------------------------------------------
// C03
// ---------------------------------------------------------------------------------------------

fn check_c03_string(f: F, s: &str, expected: Option<&Narsese>) {
    let direct = enum_parse(f, s);
    let lexical = lex_parse(f, s);
    let folded = match &lexical {
        Ok(x) => lex_fold(f, x.clone()),
        Err(e) => Err(e.clone()),
    };
    if let Some(v) = expected {
        assert!(direct.is_ok(), "C03 {f:?} enum parse of {s:?} failed: {:?}", direct.as_ref().err());
        assert!(lexical.is_ok(), "C03 {f:?} lexical parse of {s:?} failed: {:?}", lexical.as_ref().err());
        assert!(folded.is_ok(), "C03 {f:?} fold of lexical parse of {s:?} failed: {:?}", folded.as_ref().err());
        assert_eq!(
            canon_result(&folded),
            canon_narsese(v),
            "C03 {f:?} lexical pipeline vs original value for {s:?}"
        );
        assert_eq!(folded.as_ref().ok(), Some(v), "C03 {f:?} lexical pipeline == original for {s:?}");
    }
    assert_eq!(
        canon_result(&direct),
        canon_result(&folded),
        "C03 {f:?} enum parser vs lexical parser + fold for {s:?} (errors: {:?} / {:?})",
        direct.as_ref().err(),
        folded.as_ref().err()
    );
    if let (Ok(a), Ok(b)) = (&direct, &folded) {
        assert_eq!(a, b, "C03 {f:?} enum parser == lexical parser + fold for {s:?}");
    }
}

#[test]
fn oracle_c03() {
    let mut rng = Rng::new(0xC03);
    // (a) everything the enum formatter can emit
    for d in gen_all_ctors(&mut rng, 2, &CFG_STD) {
        let term = build_shuffled(&d, &mut rng);
        let vs = [
            Narsese::from_term(term.clone()),
            Narsese::from_sentence(gen_sentence_of(&mut rng, term.clone())),
            Narsese::from_task(Task::new(gen_sentence_of(&mut rng, term), gen_budget(&mut rng))),
        ];
        for v in vs.iter() {
            for f in FORMATS {
                check_c03_string(f, &ef(f).format_narsese(v), Some(v));
            }
        }
    }
    for v in all_items_of(&build_plain(&D::node(SIM, vec![D::word("a"), D::atom(DVAR, "b")]))) {
        for f in FORMATS {
            check_c03_string(f, &ef(f).format_narsese(&v), Some(&v));
        }
    }
    for _ in 0..300 {
        let d = gen_d(&mut rng, 4, &CFG_STD);
        let v = gen_narsese_of(&mut rng, &d);
        for f in FORMATS {
            check_c03_string(f, &ef(f).format_narsese(&v), Some(&v));
        }
    }
    // (b) arity-valid lexical values incl. derived copulas, written by the lexical formatter
    for f in FORMATS {
        for i in 0..300 {
            let x = gen_lx_narsese(&mut rng, f, false, i % 4 == 0);
            let s = lf(f).format_narsese(&x);
            check_c03_string(f, &s, None);
            // folding the value directly is the same as folding its re-parse
            let direct_fold = lex_fold(f, x.clone());
            let pipeline = lex_pipeline(f, &s);
            assert_eq!(
                canon_result(&direct_fold),
                canon_result(&pipeline),
                "C03 {f:?} fold(x) vs fold(parse(format(x))) for {s:?}"
            );
        }
    }
    // (c) folding single items: truth, budget, terms with every keyword of the enum table
    for f in FORMATS {
        let fmt = ef(f);
        let t: Result<Truth, _> = vec!["0.5".to_string(), "0.9".to_string()].try_fold_into(fmt);
        assert_eq!(t.ok().as_ref().map(canon_truth), Some("T(0.5,0.9)".to_string()), "C03 {f:?} truth fold");
        let b: Result<Budget, _> =
            vec!["0.5".to_string(), "0.9".to_string(), "1".to_string()].try_fold_into(fmt);
        assert_eq!(b.ok().as_ref().map(canon_budget), Some("B(0.5,0.9,1.0)".to_string()), "C03 {f:?} budget fold");
        let a = || lx::Term::new_atom(fmt.atom.prefix_word, "a");
        let b = || lx::Term::new_atom(fmt.atom.prefix_variable_query, "b");
        let ph = || lx::Term::new_atom(fmt.atom.prefix_placeholder, "");
        let fold_term = |x: lx::Term| -> String {
            let r: Result<Term, _> = x.clone().try_fold_into(fmt);
            match r {
                Ok(t) => canon(&t),
                Err(e) => panic!("C03 {f:?} fold of {x:?} failed: {e:?}"),
            }
        };
        let cases: Vec<(lx::Term, &str)> = vec![
            (lx::Term::new_atom(fmt.atom.prefix_variable_independent, "i"), "I(\"i\")"),
            (lx::Term::new_atom(fmt.atom.prefix_variable_dependent, "d"), "D(\"d\")"),
            (lx::Term::new_atom(fmt.atom.prefix_operator, "o"), "O(\"o\")"),
            (lx::Term::new_atom(fmt.atom.prefix_interval, "0012"), "N(12)"),
            (ph(), "_"),
            (
                lx::Term::new_set(
                    fmt.compound.brackets_set_extension.0,
                    vec![a(), b()],
                    fmt.compound.brackets_set_extension.1,
                ),
                "SE{Q(\"b\"),W(\"a\")}",
            ),
            (
                lx::Term::new_set(
                    fmt.compound.brackets_set_intension.0,
                    vec![a()],
                    fmt.compound.brackets_set_intension.1,
                ),
                "SI{W(\"a\")}",
            ),
            (lx::Term::new_compound(fmt.compound.connecter_intersection_extension, vec![a(), b()]), "IE{Q(\"b\"),W(\"a\")}"),
            (lx::Term::new_compound(fmt.compound.connecter_intersection_intension, vec![a(), b()]), "II{Q(\"b\"),W(\"a\")}"),
            (lx::Term::new_compound(fmt.compound.connecter_difference_extension, vec![a(), b()]), "DE[W(\"a\"),Q(\"b\")]"),
            (lx::Term::new_compound(fmt.compound.connecter_difference_intension, vec![b(), a()]), "DI[Q(\"b\"),W(\"a\")]"),
            (lx::Term::new_compound(fmt.compound.connecter_product, vec![b(), a(), b()]), "PR[Q(\"b\"),W(\"a\"),Q(\"b\")]"),
            (lx::Term::new_compound(fmt.compound.connecter_image_extension, vec![b(), ph(), a()]), "ME@1[Q(\"b\"),W(\"a\")]"),
            (lx::Term::new_compound(fmt.compound.connecter_image_intension, vec![b(), a(), ph()]), "MI@2[Q(\"b\"),W(\"a\")]"),
            (lx::Term::new_compound(fmt.compound.connecter_conjunction, vec![a(), b()]), "CJ{Q(\"b\"),W(\"a\")}"),
            (lx::Term::new_compound(fmt.compound.connecter_disjunction, vec![a(), b()]), "DJ{Q(\"b\"),W(\"a\")}"),
            (lx::Term::new_compound(fmt.compound.connecter_negation, vec![b()]), "NG[Q(\"b\")]"),
            (lx::Term::new_compound(fmt.compound.connecter_conjunction_sequential, vec![b(), a()]), "SQ[Q(\"b\"),W(\"a\")]"),
            (lx::Term::new_compound(fmt.compound.connecter_conjunction_parallel, vec![b(), a()]), "PA{Q(\"b\"),W(\"a\")}"),
            (lx::Term::new_statement(fmt.statement.copula_inheritance, b(), a()), "INH[Q(\"b\"),W(\"a\")]"),
            (lx::Term::new_statement(fmt.statement.copula_similarity, b(), a()), "SIM<Q(\"b\"),W(\"a\")>"),
            (lx::Term::new_statement(fmt.statement.copula_implication, b(), a()), "IMP[Q(\"b\"),W(\"a\")]"),
            (lx::Term::new_statement(fmt.statement.copula_equivalence, b(), a()), "EQV<Q(\"b\"),W(\"a\")>"),
            (lx::Term::new_statement(fmt.statement.copula_implication_predictive, b(), a()), "IMPP[Q(\"b\"),W(\"a\")]"),
            (lx::Term::new_statement(fmt.statement.copula_implication_concurrent, b(), a()), "IMPC[Q(\"b\"),W(\"a\")]"),
            (lx::Term::new_statement(fmt.statement.copula_implication_retrospective, b(), a()), "IMPR[Q(\"b\"),W(\"a\")]"),
            (lx::Term::new_statement(fmt.statement.copula_equivalence_predictive, b(), a()), "EQVP[Q(\"b\"),W(\"a\")]"),
            (lx::Term::new_statement(fmt.statement.copula_equivalence_concurrent, b(), a()), "EQVC<Q(\"b\"),W(\"a\")>"),
            (lx::Term::new_statement(fmt.statement.copula_equivalence_retrospective, b(), a()), "EQVP[W(\"a\"),Q(\"b\")]"),
            (lx::Term::new_statement(fmt.statement.copula_instance, b(), a()), "INH[SE{Q(\"b\")},W(\"a\")]"),
            (lx::Term::new_statement(fmt.statement.copula_property, b(), a()), "INH[Q(\"b\"),SI{W(\"a\")}]"),
            (lx::Term::new_statement(fmt.statement.copula_instance_property, b(), a()), "INH[SE{Q(\"b\")},SI{W(\"a\")}]"),
        ];
        for (x, expected) in cases {
            assert_eq!(fold_term(x.clone()), expected, "C03 {f:?} fold of {x:?}");
            // and the same through the strings
            let s = lf(f).format_term(&x);
            check_c03_string(f, &s, None);
            assert_eq!(
                enum_parse(f, &s).ok().map(|v| canon_narsese(&v)),
                Some(format!("term:{expected}")),
                "C03 {f:?} enum parse of {s:?}"
            );
        }
        // the keyword lists of the two format instances of the same name agree with the reference table
        let v = vocab(f);
        let cops = fmt.copulas();
        let mut expected_cops: Vec<&str> = all_copulas(f);
        let mut got: Vec<&str> = cops.to_vec();
        expected_cops.sort();
        got.sort();
        assert_eq!(got, expected_cops, "C03 {f:?} copula list of the enum format");
        assert_eq!(fmt.compound.separator, v.sep, "C03 {f:?} separator");
        assert_eq!(lf(f).compound.separator, v.sep, "C03 {f:?} lexical separator");
        assert_eq!(lf(f).compound.brackets, (v.br_compound.0.to_string(), v.br_compound.1.to_string()), "C03 {f:?} lexical compound brackets");
        assert_eq!(lf(f).statement.brackets, (v.br_stmt.0.to_string(), v.br_stmt.1.to_string()), "C03 {f:?} lexical statement brackets");
        assert_eq!(lf(f).sentence.truth_brackets, (v.truth_br.0.to_string(), v.truth_br.1.to_string()), "C03 {f:?} lexical truth brackets");
        assert_eq!(lf(f).task.budget_brackets, (v.budget_br.0.to_string(), v.budget_br.1.to_string()), "C03 {f:?} lexical budget brackets");
        assert_eq!(lf(f).sentence.truth_separator, v.truth_sep, "C03 {f:?} lexical truth separator");
        assert_eq!(lf(f).task.budget_separator, v.budget_sep, "C03 {f:?} lexical budget separator");
    }
}

// ---------------------------------------------------------------------------------------------
// fuzz corpus (C04, C05, C08, C12)
// ---------------------------------------------------------------------------------------------

fn vocab_tokens(f: F) -> Vec<String> {
    let v = vocab(f);
    let mut t: Vec<&str> = vec![];
    t.extend(v.prefix.iter().skip(1));
    t.extend([v.br_compound.0, v.br_compound.1, v.sep, v.br_ext.0, v.br_ext.1, v.br_int.0, v.br_int.1]);
    t.extend(v.connecter.iter());
    t.extend([v.br_stmt.0, v.br_stmt.1]);
    t.extend(v.copula.iter());
    t.extend(v.copula_derived.iter());
    t.extend(v.punct.iter());
    t.extend([v.stamp_br.0, v.stamp_br.1, v.stamp_past, v.stamp_present, v.stamp_future, v.stamp_fixed]);
    t.extend([v.truth_br.0, v.truth_br.1, v.truth_sep, v.budget_br.0, v.budget_br.1, v.budget_sep]);
    let mut r: Vec<String> = t.into_iter().filter(|s| !s.is_empty()).map(|s| s.to_string()).collect();
    for s in [
        " ", "  ", "a", "b", "word", "x1", "go-to", "-", "--", "_", "0", "1", "0.5", "1.5", ".", "..", "0.9",
        "-1", "+5", "99999999999999999999999999", "1e5", "NaN", "inf", "\t", "\n", "\u{3000}", "❌", "é", "词",
        "🌹", "\u{0}", "\\", "{", "}", "<", ">", "(", ")", "%", "$", ":", ";", ",", "!", "?", "@", "#", "^", "+",
        "=", "|", "/", "&", "~", "*", "[", "]", "\"", "'", "\u{202e}", "\u{feff}",
    ] {
        r.push(s.to_string());
    }
    r
}

fn char_len(s: &str) -> usize {
    s.chars().count()
}
fn clip(s: String, max: usize) -> String {
    if char_len(&s) <= max {
        s
    } else {
        s.chars().take(max).collect()
    }
}

/// strings of at most 512 chars and nesting at most 64: garbage, near-valid, truncated, deeply nested
fn fuzz_corpus(f: F, rng: &mut Rng, n_random: usize) -> Vec<String> {
    let v = vocab(f);
    let toks = vocab_tokens(f);
    let mut out: Vec<String> = vec![];
    // valid strings to mutate
    let mut valid: Vec<String> = vec![];
    for _ in 0..40 {
        let d = gen_d(rng, 3, &CFG_STD);
        let val = gen_narsese_of(rng, &d);
        valid.push(ef(f).format_narsese(&val));
    }
    for _ in 0..20 {
        let x = gen_lx_narsese(rng, f, true, true);
        valid.push(lf(f).format_narsese(&x));
    }
    // (1) token soup
    for _ in 0..n_random {
        let k = rng.range(0, 40);
        let mut s = String::new();
        for _ in 0..k {
            s.push_str(rng.pick(&toks[..]).as_str());
        }
        out.push(clip(s, 512));
    }
    // (2) mutated valid strings
    for _ in 0..n_random {
        let base: Vec<char> = rng.pick(&valid).chars().collect();
        let mut cs = base.clone();
        for _ in 0..rng.range(1, 3) {
            if cs.is_empty() {
                break;
            }
            match rng.below(6) {
                0 => {
                    let i = rng.below(cs.len());
                    cs.remove(i);
                }
                1 => {
                    let i = rng.below(cs.len() + 1);
                    cs.truncate(i);
                }
                2 => {
                    let i = rng.below(cs.len());
                    let j = rng.range(i, cs.len().min(i + 8));
                    let slice: Vec<char> = cs[i..j].to_vec();
                    for (k, c) in slice.into_iter().enumerate() {
                        cs.insert(j + k, c);
                    }
                }
                3 => {
                    let i = rng.below(cs.len() + 1);
                    for (k, c) in rng.pick(&toks[..]).chars().enumerate() {
                        cs.insert(i + k, c);
                    }
                }
                4 => {
                    let i = rng.below(cs.len());
                    let j = rng.below(cs.len());
                    cs.swap(i, j);
                }
                _ => {
                    let i = rng.below(cs.len());
                    cs.drain(..i);
                }
            }
        }
        out.push(clip(cs.into_iter().collect(), 512));
    }
    out.extend(valid.iter().filter(|s| char_len(s) <= 512).cloned());
    // (3) nesting (<= 64), balanced and unbalanced
    let openers: Vec<(String, String)> = vec![
        (format!("{}{}{}", v.br_compound.0, v.connecter[9], v.sep), v.br_compound.1.to_string()),
        (format!("{}{}{}", v.br_compound.0, v.connecter[4], v.sep), v.br_compound.1.to_string()),
        (v.br_ext.0.to_string(), v.br_ext.1.to_string()),
        (v.br_int.0.to_string(), v.br_int.1.to_string()),
        (v.br_stmt.0.to_string(), format!("{}a{}", v.copula[0], v.br_stmt.1)),
        (v.br_stmt.0.to_string(), v.br_stmt.1.to_string()),
        (v.br_compound.0.to_string(), v.br_compound.1.to_string()),
    ];
    for (open, close) in openers.iter() {
        let max_depth = (500 / (char_len(open) + char_len(close))).min(64).max(1);
        for depth in [1, 2, max_depth / 2, max_depth] {
            let full = format!("{}a{}", open.repeat(depth), close.repeat(depth));
            if char_len(&full) <= 512 {
                out.push(full.clone());
                out.push(format!("{full}{}", v.punct[0]));
            }
            out.push(clip(format!("{}a", open.repeat(depth)), 512));
            out.push(clip(open.repeat(depth), 512));
            out.push(clip(format!("a{}", close.repeat(depth)), 512));
            out.push(clip(format!("{}a{}", open.repeat(depth), close.repeat(depth / 2)), 512));
        }
    }
    // (4) numbers and items
    let p = v.punct[0];
    let (t0, t1, ts) = (v.truth_br.0, v.truth_br.1, v.truth_sep);
    let (b0, b1, bs) = (v.budget_br.0, v.budget_br.1, v.budget_sep);
    let (s0, s1) = v.stamp_br;
    for num in ["", "0", "1", "1.5", "2", "0.5.5", ".", "..", "-0.5", "1e3", "00000000000000000000000000000000000001", "0.000000000000000000000000000000000000000000000001", "9".repeat(400).as_str()] {
        out.push(clip(format!("a{p} {t0}{num}{t1}"), 512));
        out.push(clip(format!("a{p} {t0}{num}{ts}{num}{t1}"), 512));
        out.push(clip(format!("a{p} {t0}{num}{ts}{num}{ts}{num}{t1}"), 512));
        out.push(clip(format!("a{p} {t0}{num}"), 512));
        out.push(clip(format!("{b0}{num}{b1} a{p}"), 512));
        out.push(clip(format!("{b0}{num}{bs}{num}{bs}{num}{b1} a{p}"), 512));
        out.push(clip(format!("{b0}{num}{bs}{num}{bs}{num}{bs}{num}{b1} a{p}"), 512));
        out.push(clip(format!("{b0}{num}"), 512));
        out.push(clip(format!("a{p} {s0}{}{num}{s1}", v.stamp_fixed), 512));
        out.push(clip(format!("a{p} {s0}{}{num}", v.stamp_fixed), 512));
        out.push(clip(format!("{t0}{num}{ts}{num}{t1}"), 512));
        out.push(clip(format!("{b0}{num}{bs}{num}{b1}"), 512));
        out.push(clip(format!("{s0}{}{num}{s1}", v.stamp_fixed), 512));
    }
    for s in [
        "", " ", "   ", "a", "a a", "a. a.", "a..", "a.!", "a b.", ". a", "$", "$$", "$$$", "%", "%%", ":", "::", ":|", ":!", ":!:",
        "<", "<a", "<a-->", "<a-->b", "<-->b>", "<a b>", "(", "(,", "(&&", "(&&,", "(&&,)", "(&&,a", "{", "{a", "{a,", "{}", "[]", "()",
        "(^op,a)", "(a,b)", "(--,a,b)", "(-,a)", "(-,a,b,c)", "(/,a,b)", "(/,_)", "(\\,_)", "(/,_,_)", "<a-->b>>", "<<a-->b>", "+", "+a", "+-1", "^", "#", "?", "_", "__", "_a_",
        "<(&/, <{powerup_good_front} --> [seen]>, +30000, <(*, {SELF}) --> ^right>, +30000) =/> <{SELF} --> [powered]",
    ] {
        out.push(s.to_string());
    }
    for s in out.iter() {
        assert!(char_len(s) <= 512, "corpus generator bug: too long");
    }
    out
}

/// Run `job(i)` for i in 0..n on a worker thread; a single job may take at most `secs` seconds.
/// Returns the first failure message.
fn run_with_watchdog(
    n: usize,
    secs: u64,
    describe: impl Fn(usize) -> String,
    job: impl Fn(usize) -> Result<(), String> + Send + 'static,
) -> Result<(), String> {
    use std::sync::mpsc::{channel, RecvTimeoutError};
    install_hook();
    let (tx, rx) = channel::<(usize, Result<(), String>)>();
    std::thread::Builder::new()
        .stack_size(64 * 1024 * 1024)
        .spawn(move || {
            QUIET.with(|q| q.set(true));
            for i in 0..n {
                let r = match catch_unwind(AssertUnwindSafe(|| job(i))) {
                    Ok(r) => r,
                    Err(e) => {
                        let msg = if let Some(s) = e.downcast_ref::<&str>() {
                            s.to_string()
                        } else if let Some(s) = e.downcast_ref::<String>() {
                            s.clone()
                        } else {
                            "<panic>".to_string()
                        };
                        Err(format!("PANIC: {msg}"))
                    }
                };
                if tx.send((i, r)).is_err() {
                    return;
                }
            }
        })
        .unwrap();
    for expected in 0..n {
        match rx.recv_timeout(std::time::Duration::from_secs(secs)) {
            Ok((i, r)) => {
                assert_eq!(i, expected);
                if let Err(e) = r {
                    return Err(format!("{} -> {e}", describe(i)));
                }
            }
            Err(RecvTimeoutError::Timeout) => {
                return Err(format!("{} -> no result within {secs} s (non-terminating?)", describe(expected)))
            }
            Err(RecvTimeoutError::Disconnected) => {
                return Err(format!("{} -> worker thread died", describe(expected)))
            }
        }
    }
    Ok(())
}

// ---------------------------------------------------------------------------------------------
// well-formedness (C12)
// ---------------------------------------------------------------------------------------------

fn in01(x: f64) -> bool {
    x >= 0.0 && x <= 1.0
}
fn wf_term(t: &Term, from_parser: bool) -> Result<(), String> {
    let kids: Vec<&Term> = match t {
        Term::Word(n)
        | Term::VariableIndependent(n)
        | Term::VariableDependent(n)
        | Term::VariableQuery(n)
        | Term::Operator(n) => {
            if n.is_empty() {
                return Err(format!("empty atom name in {t:?}"));
            }
            vec![]
        }
        Term::Placeholder | Term::Interval(_) => vec![],
        Term::SetExtension(s)
        | Term::SetIntension(s)
        | Term::IntersectionExtension(s)
        | Term::IntersectionIntension(s)
        | Term::Conjunction(s)
        | Term::Disjunction(s)
        | Term::ConjunctionParallel(s) => {
            if from_parser && s.is_empty() {
                return Err(format!("empty compound {t:?}"));
            }
            s.iter().collect()
        }
        Term::Product(v) | Term::ConjunctionSequential(v) => {
            if from_parser && v.is_empty() {
                return Err(format!("empty compound {t:?}"));
            }
            v.iter().collect()
        }
        Term::ImageExtension(i, v) | Term::ImageIntension(i, v) => {
            if *i > v.len() {
                return Err(format!("image index {i} > {} in {t:?}", v.len()));
            }
            if from_parser && v.is_empty() {
                return Err(format!("empty image {t:?}"));
            }
            v.iter().collect()
        }
        Term::Negation(a) => vec![a],
        Term::DifferenceExtension(a, b)
        | Term::DifferenceIntension(a, b)
        | Term::Inheritance(a, b)
        | Term::Similarity(a, b)
        | Term::Implication(a, b)
        | Term::Equivalence(a, b)
        | Term::ImplicationPredictive(a, b)
        | Term::ImplicationConcurrent(a, b)
        | Term::ImplicationRetrospective(a, b)
        | Term::EquivalencePredictive(a, b)
        | Term::EquivalenceConcurrent(a, b) => vec![a, b],
    };
    for k in kids {
        wf_term(k, from_parser)?;
    }
    Ok(())
}
fn wf_narsese(v: &Narsese, from_parser: bool) -> Result<(), String> {
    let check_truth = |t: &Truth| -> Result<(), String> {
        if truth_floats(t).iter().all(|x| in01(*x)) {
            Ok(())
        } else {
            Err(format!("truth out of range: {t:?}"))
        }
    };
    let check_sentence = |s: &Sentence| -> Result<(), String> {
        match s {
            Sentence::Judgement(t, tr, _) | Sentence::Goal(t, tr, _) => {
                check_truth(tr)?;
                wf_term(t, from_parser)
            }
            Sentence::Question(t, _) | Sentence::Quest(t, _) => wf_term(t, from_parser),
        }
    };
    match v {
        NarseseValue::Term(t) => wf_term(t, from_parser),
        NarseseValue::Sentence(s) => check_sentence(s),
        NarseseValue::Task(t) => {
            if !budget_floats(&t.1).iter().all(|x| in01(*x)) {
                return Err(format!("budget out of range: {:?}", t.1));
            }
            check_sentence(&t.0)
        }
    }
}
/// format in all three formats and render to Typst; a panic is reported as Err
fn format_everywhere(v: &Narsese) -> Result<(), String> {
    for f in FORMATS {
        let r = catch_unwind(AssertUnwindSafe(|| ef(f).format_narsese(v)));
        if r.is_err() {
            return Err(format!("formatting {} in {f:?} panicked", canon_narsese(v)));
        }
    }
    let r = catch_unwind(AssertUnwindSafe(|| FormatterTypst.format(v)));
    if r.is_err() {
        return Err(format!("Typst rendering of {} panicked", canon_narsese(v)));
    }
    Ok(())
}

// ---------------------------------------------------------------------------------------------
// C04
// ---------------------------------------------------------------------------------------------

/// all enum entry points on one input; Ok values are checked for well-formedness (C12) on the way
fn enum_entry_points(f: F, s: &str) -> Result<(), String> {
    let fmt = ef(f);
    let r = fmt.parse::<Narsese>(s);
    match &r {
        Ok(v) => {
            wf_narsese(v, true).map_err(|e| format!("C12 ill-formed Ok value: {e}"))?;
            format_everywhere(v).map_err(|e| format!("C12 {e}"))?;
        }
        Err(e) => {
            let msg = e.to_string();
            if msg.is_empty() {
                return Err("C04 empty error text".into());
            }
            let _ = format!("{e:?}");
        }
    }
    let r2 = fmt.parse_chars::<Narsese>(s.chars().collect());
    if canon_result(&r) != canon_result(&r2) {
        return Err(format!("C08 parse vs parse_chars differ: {} / {}", canon_result(&r), canon_result(&r2)));
    }
    if let Err(e) = &r2 {
        let _ = e.to_string();
    }
    let rm = fmt.parse_multi(vec![s, "", s]);
    if rm.len() != 3 {
        return Err(format!("C04 parse_multi returned {} results for 3 inputs", rm.len()));
    }
    if canon_result(&rm[0]) != canon_result(&r) || canon_result(&rm[2]) != canon_result(&r) {
        return Err(format!(
            "C08 parse_multi differs from parse: {} / {} / {}",
            canon_result(&rm[0]),
            canon_result(&rm[2]),
            canon_result(&r)
        ));
    }
    for e in rm.iter().filter_map(|r| r.as_ref().err()) {
        let _ = e.to_string();
    }
    match fmt.parse::<Truth>(s) {
        Ok(t) => {
            if !truth_floats(&t).iter().all(|x| in01(*x)) {
                return Err(format!("C12 stand-alone truth out of range: {t:?}"));
            }
        }
        Err(e) => {
            let _ = e.to_string();
        }
    }
    match fmt.parse::<Budget>(s) {
        Ok(b) => {
            if !budget_floats(&b).iter().all(|x| in01(*x)) {
                return Err(format!("C12 stand-alone budget out of range: {b:?}"));
            }
        }
        Err(e) => {
            let _ = e.to_string();
        }
    }
    if let Err(e) = fmt.parse::<Stamp>(s) {
        let _ = e.to_string();
    }
    if let Err(e) = fmt.parse::<Punctuation>(s) {
        let _ = e.to_string();
    }
    if let Err(e) = fmt.parse_chars::<Truth>(s.chars().collect()) {
        let _ = e.to_string();
    }
    if let Err(e) = fmt.parse_chars::<Budget>(s.chars().collect()) {
        let _ = e.to_string();
    }
    if let Err(e) = fmt.parse_chars::<Stamp>(s.chars().collect()) {
        let _ = e.to_string();
    }
    if let Err(e) = fmt.parse_chars::<Punctuation>(s.chars().collect()) {
        let _ = e.to_string();
    }
    let r = fmt.parse::<NarseseOptions<Budget, Term, Punctuation, Stamp, Truth>>(s);
    if let Err(e) = r {
        let _ = e.to_string();
    }
    Ok(())
}

#[test]
fn oracle_c04() {
    let mut rng = Rng::new(0xC04);
    for f in FORMATS {
        let corpus = std::sync::Arc::new(fuzz_corpus(f, &mut rng, 350));
        let c2 = corpus.clone();
        let c3 = corpus.clone();
        let r = run_with_watchdog(
            corpus.len(),
            5,
            move |i| format!("C04 {f:?} enum parser entry points on {:?}", c2[i]),
            move |i| enum_entry_points(f, &c3[i]),
        );
        if let Err(e) = r {
            panic!("{e}");
        }
    }
    // exact expectations for classic malformed inputs (ASCII)
    let must_fail = [
        "", " ", "`word", ",", "wo:rd", "wo[rd", "(^op, a)", ")", "}", "]", "(", "{", "[", "{}", "[]", "(&/, )",
        "( -, a, b, c)", "( ~, a, b, c)", "( /, a, b, c)", "( \\, a, b, c)", "( --, a, b)", "(unknown, word, ^op)",
        "a~", "a`", "a#", "a^", "a&", "a*", "a|", "a\\", "a/", "a..", "a!!", "a??", "a@@",
        "A. %-1;1%", "A. %1;-1%", "A. %2;1%", "A. %1;2%", "$-1;1;1$ A.", "$1;-1;1$ A.", "$1;1;-1$ A.", "$2;1;1$ A.",
        "$1;2;1$ A.", "$1;1;2$ A.", "A. :~:", "A. :1:", "A. :-:", "A. :!:", "A. :!1.0:", "A. :!--1:", "A. :!+:", "A. :!-:",
        "<a b>", "<a --> >", "< --> b>", "$0.5$", "%1%", ":|:", "$", "+", "+x", "^", "#", "a b",
    ];
    for s in must_fail {
        let r = quiet(|| E_ASCII.parse::<Narsese>(s));
        match r {
            Ok(Ok(v)) => panic!("C04 ASCII malformed input {s:?} was accepted as {}", canon_narsese(&v)),
            Ok(Err(e)) => assert!(!e.to_string().is_empty(), "C04 error text for {s:?}"),
            Err(p) => panic!("C04 ASCII parser panicked on {s:?}: {p}"),
        }
    }
    // stand-alone item parsers: exact values
    let ok_truth = [("%1.0;0.9%", "T(1.0,0.9)"), ("%.0;.9%", "T(0.0,0.9)"), ("%00%", "T(0.0)"), ("%%", "T()"), ("% 0.5 ; 0.25 %", "T(0.5,0.25)"), ("%1%", "T(1.0)")];
    for (s, c) in ok_truth {
        let r = E_ASCII.parse::<Truth>(s);
        assert_eq!(r.ok().as_ref().map(canon_truth), Some(c.to_string()), "C04 stand-alone truth {s:?}");
    }
    for s in ["%1.5%", "%0.5;2%", "%x%", "%0.5;;%"] {
        let r = quiet(|| E_ASCII.parse::<Truth>(s).is_err());
        assert_eq!(r, Ok(true), "C04 stand-alone truth {s:?} must be an error");
    }
    let ok_budget = [("$0.5;0.5;0.5$", "B(0.5,0.5,0.5)"), ("$.7;.75$", "B(0.7,0.75)"), ("$1$", "B(1.0)"), ("$$", "B()"), ("$ 0 ; 1 ; 0.5 $", "B(0.0,1.0,0.5)")];
    for (s, c) in ok_budget {
        let r = E_ASCII.parse::<Budget>(s);
        assert_eq!(r.ok().as_ref().map(canon_budget), Some(c.to_string()), "C04 stand-alone budget {s:?}");
    }
    for s in ["$1.5$", "$0.5;2$", "$0.5;0.5;1.01$", "$x$", "$0.5", "$0.5;0.5;0.5;0.5$"] {
        let r = quiet(|| E_ASCII.parse::<Budget>(s).is_err());
        assert_eq!(r, Ok(true), "C04 stand-alone budget {s:?} must be an error");
    }
    let ok_stamp = [("", "S:eternal"), (":|:", "S:present"), (":/:", "S:future"), (":\\:", "S:past"), (":!5:", "S:fixed(5)"), (":!-5:", "S:fixed(-5)"), (":!+137:", "S:fixed(137)"), (": ! 7 :", "S:fixed(7)")];
    for (s, c) in ok_stamp {
        let r = E_ASCII.parse::<Stamp>(s);
        assert_eq!(r.ok().as_ref().map(canon_stamp), Some(c.to_string()), "C04 stand-alone stamp {s:?}");
    }
    for s in [":~:", ":!:", ":!x:", ":!99999999999999999999999:", ":", "x"] {
        let r = quiet(|| E_ASCII.parse::<Stamp>(s).is_err());
        assert_eq!(r, Ok(true), "C04 stand-alone stamp {s:?} must be an error");
    }
    for s in ["", "a", ":", "%", "~"] {
        let r = quiet(|| E_ASCII.parse::<Punctuation>(s).is_err());
        assert_eq!(r, Ok(true), "C04 stand-alone punctuation {s:?} must be an error");
    }
    // error display names the message and shows a window of the input
    let e = E_ASCII.parse::<Narsese>("<a b>").err().map(|e| e.to_string()).unwrap_or_default();
    assert!(e.contains("Narsese"), "C04 error text {e:?}");
}

// ---------------------------------------------------------------------------------------------
// C05
// ---------------------------------------------------------------------------------------------

/// fold into every enum format; Ok values must satisfy the C12 range / image-index guarantees
fn fold_everywhere(x: &lx::Narsese) -> Result<(), String> {
    for e in FORMATS {
        let r: Result<Narsese, _> = x.clone().try_fold_into(ef(e));
        match r {
            Ok(v) => {
                wf_narsese_fold(&v).map_err(|m| format!("C12 fold into {e:?} gave ill-formed value: {m}"))?;
                format_everywhere(&v).map_err(|m| format!("C12 after fold into {e:?}: {m}"))?;
            }
            Err(err) => {
                let _ = format!("{err:?}");
            }
        }
    }
    Ok(())
}
/// what folding guarantees: ranges, image index, non-empty atom names
fn wf_narsese_fold(v: &Narsese) -> Result<(), String> {
    wf_narsese(v, false)
}

fn lexical_entry_points(f: F, s: &str) -> Result<(), String> {
    let fmt = lf(f);
    let r = fmt.parse(s);
    let r_again = fmt.parse(s);
    if format!("{:?}", r.as_ref().ok()) != format!("{:?}", r_again.as_ref().ok()) {
        return Err("C08 lexical parse is not repeatable".into());
    }
    match &r {
        Ok(x) => fold_everywhere(x)?,
        Err(e) => {
            if e.to_string().is_empty() {
                return Err("C05 empty error text".into());
            }
        }
    }
    match fmt.parse_term(s) {
        Ok(t) => fold_everywhere(&lx::Narsese::from_term(t))?,
        Err(e) => {
            let _ = e.to_string();
        }
    }
    Ok(())
}

/// lexical value with arbitrary strings in every field
fn gen_wild_lx_term(rng: &mut Rng, depth: usize, pool: &[String]) -> lx::Term {
    let s = |rng: &mut Rng| -> String {
        match rng.below(8) {
            0 => String::new(),
            1 => format!("{}{}", rng.pick(pool), rng.pick(pool)),
            _ => rng.pick(pool).clone(),
        }
    };
    if depth == 0 || rng.chance(1, 3) {
        return lx::Term::new_atom(s(rng), s(rng));
    }
    let n = rng.below(5);
    match rng.below(3) {
        0 => {
            let kids = (0..n).map(|_| gen_wild_lx_term(rng, depth - 1, pool)).collect();
            lx::Term::new_compound(s(rng), kids)
        }
        1 => {
            let kids = (0..n).map(|_| gen_wild_lx_term(rng, depth - 1, pool)).collect();
            lx::Term::new_set(s(rng), kids, s(rng))
        }
        _ => lx::Term::new_statement(
            s(rng),
            gen_wild_lx_term(rng, depth - 1, pool),
            gen_wild_lx_term(rng, depth - 1, pool),
        ),
    }
}
fn gen_wild_lx(rng: &mut Rng, pool: &[String]) -> lx::Narsese {
    let term = gen_wild_lx_term(rng, 3, pool);
    let strs = |rng: &mut Rng, max: usize| -> Vec<String> {
        (0..rng.below(max + 1)).map(|_| rng.pick(pool).clone()).collect()
    };
    match rng.below(3) {
        0 => lx::Narsese::from_term(term),
        1 => {
            let (p, st, tr) = (rng.pick(pool).clone(), rng.pick(pool).clone(), strs(rng, 4));
            lx::Narsese::from_sentence(lx::Sentence::new(term, p, st, tr))
        }
        _ => {
            let (b, p, st, tr) = (strs(rng, 5), rng.pick(pool).clone(), rng.pick(pool).clone(), strs(rng, 4));
            lx::Narsese::from_task(lx::Task::new(b, term, p, st, tr))
        }
    }
}

#[test]
fn oracle_c05() {
    let mut rng = Rng::new(0xC05);
    // (1) strings
    for f in FORMATS {
        let corpus = std::sync::Arc::new(fuzz_corpus(f, &mut rng, 300));
        let (c2, c3) = (corpus.clone(), corpus.clone());
        let r = run_with_watchdog(
            corpus.len(),
            5,
            move |i| format!("C05 {f:?} lexical parser / fold on {:?}", c2[i]),
            move |i| lexical_entry_points(f, &c3[i]),
        );
        if let Err(e) = r {
            panic!("{e}");
        }
    }
    // (2) arbitrary lexical values
    let mut pool: Vec<String> = vec![];
    for f in FORMATS {
        pool.extend(vocab_tokens(f));
        pool.extend(lx_stamp_strings(f));
    }
    for s in ["0.5", "1", "0", "1.5", "-0.5", "-0", "NaN", "nan", "inf", "-inf", "1e-3", "1e400", "+0.5", "0x10", "١", "18446744073709551616", "-7", "+7", "007", " 5", "5 ", ":!:", ":!x:", ":||:", "::", ":!99999999999999999999:"] {
        pool.push(s.to_string());
    }
    let pool = std::sync::Arc::new(pool);
    let values: Vec<lx::Narsese> = (0..1200).map(|_| gen_wild_lx(&mut rng, &pool)).collect();
    let values = std::sync::Arc::new(values);
    let (v2, v3) = (values.clone(), values.clone());
    let r = run_with_watchdog(
        values.len(),
        5,
        move |i| format!("C05 fold of arbitrary lexical value {:?}", v2[i]),
        move |i| {
            fold_everywhere(&v3[i])?;
            // formatting an arbitrary lexical value must not panic either
            for f in FORMATS {
                let _ = lf(f).format_narsese(&v3[i]);
            }
            Ok(())
        },
    );
    if let Err(e) = r {
        panic!("{e}");
    }
    // (3) exact expectations: these folds must be errors (never panics, never Ok)
    let a = || lx::Term::new_atom("", "a");
    let ph = || lx::Term::new_atom("_", "");
    let bad_terms: Vec<lx::Term> = vec![
        lx::Term::new_atom("", ""),
        lx::Term::new_atom("$", ""),
        lx::Term::new_atom("%", "a"),
        lx::Term::new_atom("+", "x"),
        lx::Term::new_atom("+", "-1"),
        lx::Term::new_atom("+", "18446744073709551616"),
        lx::Term::new_atom("+", ""),
        lx::Term::new_compound("&&&", vec![a()]),
        lx::Term::new_compound("", vec![a()]),
        lx::Term::new_compound("/", vec![a(), a()]),
        lx::Term::new_compound("\\", vec![a()]),
        lx::Term::new_compound("/", vec![]),
        lx::Term::new_compound("--", vec![]),
        lx::Term::new_compound("-", vec![a()]),
        lx::Term::new_compound("~", vec![]),
        lx::Term::new_set("{", vec![a()], "]"),
        lx::Term::new_set("[", vec![a()], "}"),
        lx::Term::new_set("(", vec![a()], ")"),
        lx::Term::new_statement("->", a(), a()),
        lx::Term::new_statement("", a(), a()),
        lx::Term::new_statement("-->", a(), lx::Term::new_atom("", "")),
        lx::Term::new_compound("*", vec![a(), lx::Term::new_compound("?", vec![a()])]),
    ];
    for x in bad_terms {
        let r = quiet(|| {
            let r: Result<Term, _> = x.clone().try_fold_into(&E_ASCII);
            r.map(|t| canon(&t)).map_err(|e| format!("{e:?}"))
        });
        match r {
            Ok(Err(_)) => {}
            Ok(Ok(c)) => panic!("C05 fold of invalid lexical term {x:?} succeeded with {c}"),
            Err(p) => panic!("C05 fold of {x:?} panicked: {p}"),
        }
    }
    // lenient but well-formed cases keep their meaning
    let ok_terms: Vec<(lx::Term, &str)> = vec![
        (lx::Term::new_compound("/", vec![ph()]), "ME@0[]"),
        (lx::Term::new_compound("\\", vec![a(), ph(), ph()]), "MI@1[W(\"a\"),_]"),
        (lx::Term::new_compound("*", vec![]), "PR[]"),
        (lx::Term::new_atom("_", "anything"), "_"),
        (lx::Term::new_atom("+", "+7"), "N(7)"),
    ];
    for (x, expected) in ok_terms {
        let r = quiet(|| {
            let r: Result<Term, _> = x.clone().try_fold_into(&E_ASCII);
            r.map(|t| canon(&t)).map_err(|e| format!("{e:?}"))
        });
        assert_eq!(r, Ok(Ok(expected.to_string())), "C05 fold of {x:?}");
    }
    let sentence = |p: &str, st: &str, tr: &[&str]| {
        lx::Sentence::new(a(), p, st, tr.iter().map(|s| s.to_string()).collect::<Vec<_>>())
    };
    let bad_sentences = vec![
        sentence(".", "", &["x"]),
        sentence(".", "", &["1.5"]),
        sentence(".", "", &["0.5", "-0.1"]),
        sentence(".", "", &["NaN"]),
        sentence(".", "", &["0.5", "inf"]),
        sentence(".", "", &[""]),
        sentence("", "", &[]),
        sentence("~", "", &[]),
        sentence(".", ":~:", &[]),
        sentence(".", ":!:", &[]),
        sentence(".", ":!x:", &[]),
        sentence("?", "", &["2"]),
    ];
    for x in bad_sentences {
        let r = quiet(|| {
            let r: Result<Sentence, _> = x.clone().try_fold_into(&E_ASCII);
            r.map(|t| canon_sentence(&t)).map_err(|e| format!("{e:?}"))
        });
        match r {
            Ok(Err(_)) => {}
            Ok(Ok(c)) => panic!("C05 fold of invalid lexical sentence {x:?} succeeded with {c}"),
            Err(p) => panic!("C05 fold of {x:?} panicked: {p}"),
        }
    }
    for budget in [vec!["1.5"], vec!["0.5", "x"], vec!["0.5", "0.5", "-1"], vec!["NaN"], vec![""]] {
        let x = lx::Task::new(budget.iter().map(|s| s.to_string()).collect::<Vec<_>>(), a(), ".", "", Vec::<String>::new());
        let r = quiet(|| {
            let r: Result<Task, _> = x.clone().try_fold_into(&E_ASCII);
            r.map(|t| canon_task(&t)).map_err(|e| format!("{e:?}"))
        });
        match r {
            Ok(Err(_)) => {}
            Ok(Ok(c)) => panic!("C05 fold of invalid lexical task {x:?} succeeded with {c}"),
            Err(p) => panic!("C05 fold of {x:?} panicked: {p}"),
        }
    }
    // surplus truth / budget entries are ignored, the consumed ones are kept
    let x = lx::Task::new(
        vec!["0.1".to_string(), "0.2".to_string(), "0.3".to_string(), "7".to_string()],
        a(),
        "!",
        ":!-3:",
        vec!["0.4".to_string(), "0.6".to_string(), "9".to_string()],
    );
    let r: Result<Task, _> = x.try_fold_into(&E_ASCII);
    assert_eq!(
        r.ok().as_ref().map(canon_task),
        Some("TASK[B(0.1,0.2,0.3) G[W(\"a\") T(0.4,0.6) S:fixed(-3)]]".to_string()),
        "C05 fold of task with surplus numbers"
    );
}

// ---------------------------------------------------------------------------------------------
// C08
// ---------------------------------------------------------------------------------------------

#[test]
fn oracle_c08() {
    let mut rng = Rng::new(0xC08);
    for f in FORMATS {
        let fmt = ef(f);
        let v = vocab(f);
        // pool: complete values, fragments, malformed strings
        let mut pool: Vec<String> = vec![];
        for _ in 0..40 {
            let d = gen_d(&mut rng, 3, &CFG_STD);
            pool.push(fmt.format_narsese(&gen_narsese_of(&mut rng, &d)));
        }
        let p = v.punct;
        let b = format!("{}0.5{}0.25{}", v.budget_br.0, v.budget_sep, v.budget_br.1);
        let b_empty = format!("{}{}", v.budget_br.0, v.budget_br.1);
        let t = format!("{}1{}0.9{}", v.truth_br.0, v.truth_sep, v.truth_br.1);
        let st = format!("{}{}{}", v.stamp_br.0, v.stamp_present, v.stamp_br.1);
        let st_fixed = format!("{}{}-7{}", v.stamp_br.0, v.stamp_fixed, v.stamp_br.1);
        let fragments: Vec<String> = vec![
            b.clone(),
            b_empty.clone(),
            t.clone(),
            st.clone(),
            st_fixed.clone(),
            p[0].to_string(),
            p[1].to_string(),
            format!("{b} {}", p[0]),
            format!("{} {st} {t}", p[0]),
            format!("{b} {st} {t}"),
            format!("{b} a"),
            format!("a{}", p[0]),
            format!("b{}", p[2]),
            "a".to_string(),
            format!("a{} {st}", p[1]),
            format!("a{} {t}", p[0]),
            format!("a{} {st_fixed} {t}", p[0]),
            format!("{b} a{}", p[3]),
            format!("{b_empty} a{}", p[0]),
            String::new(),
            " ".to_string(),
            format!("{}a", v.br_stmt.0),
            format!("{}a{}", v.br_stmt.0, v.copula[0]),
            format!("{}{}", v.br_ext.0, v.br_ext.1),
            format!("a{}{}", p[0], p[0]),
            "❌".to_string(),
        ];
        let n_complete = pool.len();
        pool.extend(fragments.iter().cloned());
        // individual results
        let single: Vec<String> = pool.iter().map(|s| canon_result(&fmt.parse::<Narsese>(s))).collect();
        for (s, c) in pool.iter().zip(single.iter()).take(n_complete) {
            assert_ne!(c, "ERR", "C08 {f:?} complete value {s:?} must parse");
        }
        // parsing twice, and from chars
        for (s, c) in pool.iter().zip(single.iter()) {
            assert_eq!(&canon_result(&fmt.parse::<Narsese>(s)), c, "C08 {f:?} second parse of {s:?}");
            assert_eq!(
                &canon_result(&fmt.parse_chars::<Narsese>(s.chars().collect())),
                c,
                "C08 {f:?} parse_chars of {s:?}"
            );
        }
        // every ordered pair of fragments (state leaks show up right after a partial input)
        for i in n_complete..pool.len() {
            for j in 0..pool.len() {
                let rs = fmt.parse_multi(vec![pool[i].as_str(), pool[j].as_str()]);
                assert_eq!(rs.len(), 2, "C08 {f:?} parse_multi result count");
                assert_eq!(canon_result(&rs[0]), single[i], "C08 {f:?} parse_multi[0] of [{:?}, {:?}]", pool[i], pool[j]);
                assert_eq!(canon_result(&rs[1]), single[j], "C08 {f:?} parse_multi[1] of [{:?}, {:?}]", pool[i], pool[j]);
            }
        }
        // random longer sequences
        for _ in 0..60 {
            let n = rng.range(0, 12);
            let idx: Vec<usize> = (0..n).map(|_| rng.below(pool.len())).collect();
            let inputs: Vec<&str> = idx.iter().map(|i| pool[*i].as_str()).collect();
            let rs = fmt.parse_multi(inputs.clone());
            assert_eq!(rs.len(), n, "C08 {f:?} parse_multi result count for {inputs:?}");
            for (k, r) in rs.iter().enumerate() {
                assert_eq!(
                    canon_result(r),
                    single[idx[k]],
                    "C08 {f:?} parse_multi[{k}] of {inputs:?} vs parse({:?})",
                    inputs[k]
                );
                if let (Ok(a), Ok(b)) = (r, &fmt.parse::<Narsese>(inputs[k])) {
                    assert_eq!(a, b, "C08 {f:?} parse_multi[{k}] == parse for {:?}", inputs[k]);
                }
            }
        }
        // exact: a budget-only / truth-only / stamp-only input must not leak into the next one
        let rs = fmt.parse_multi(vec![b.as_str(), "a", t.as_str(), st.as_str(), "a"]);
        let got: Vec<String> = rs.iter().map(canon_result).collect();
        assert_eq!(
            got,
            vec![
                "ERR".to_string(),
                "term:W(\"a\")".to_string(),
                "ERR".to_string(),
                // (a stamp keyword alone is an error in ASCII / LaTeX and a word in Han)
                canon_result(&fmt.parse::<Narsese>(&st)),
                "term:W(\"a\")".to_string(),
            ],
            "C08 {f:?} fragments then bare terms"
        );
        let s1 = format!("{b} a{} {st} {t}", p[0]);
        let s2 = format!("c{}", p[1]);
        let rs = fmt.parse_multi(vec![s1.as_str(), s2.as_str(), s1.as_str()]);
        let got: Vec<String> = rs.iter().map(canon_result).collect();
        assert_eq!(
            got,
            vec![
                "task:TASK[B(0.5,0.25) J[W(\"a\") T(1.0,0.9) S:present]]".to_string(),
                "sentence:G[W(\"c\") T() S:eternal]".to_string(),
                "task:TASK[B(0.5,0.25) J[W(\"a\") T(1.0,0.9) S:present]]".to_string(),
            ],
            "C08 {f:?} full task, bare goal, full task"
        );
        assert_eq!(fmt.parse_multi(Vec::<&str>::new()).len(), 0, "C08 {f:?} parse_multi of nothing");
        // the lexical parser and the shared static instances, used repeatedly and interleaved
        let lfmt = lf(f);
        let lex_single: Vec<String> = pool.iter().map(|s| format!("{:?}", lfmt.parse(s).ok())).collect();
        for round in 0..2 {
            for (i, s) in pool.iter().enumerate().rev() {
                assert_eq!(format!("{:?}", lfmt.parse(s).ok()), lex_single[i], "C08 {f:?} lexical re-parse (round {round}) of {s:?}");
                let other = lf(FORMATS[(i + round) % 3]);
                let _ = other.parse(s);
            }
        }
        for (s, c) in pool.iter().zip(single.iter()).take(n_complete) {
            assert_eq!(&canon_result(&lex_pipeline(f, s)), c, "C08 {f:?} lexical pipeline after heavy reuse on {s:?}");
        }
    }
}

// ---------------------------------------------------------------------------------------------
// C12
// ---------------------------------------------------------------------------------------------

#[test]
fn oracle_c12() {
    let mut rng = Rng::new(0xC12);
    let bad_nums = ["1.5", "2", "1.0000001", "10", "1.01", "99"];
    for f in FORMATS {
        let v = vocab(f);
        let fmt = ef(f);
        // (1) exact: out-of-range numbers are rejected by both pipelines
        for _ in 0..120 {
            let d = gen_d(&mut rng, 2, &CFG_STD);
            let term = build_shuffled(&d, &mut rng);
            let p = if rng.chance(1, 2) { Punctuation::Judgement } else { Punctuation::Goal };
            let truth = if rng.chance(1, 2) { Truth::new_single(0.5) } else { Truth::new_double(0.5, 0.25) };
            let s = make_sentence(term, &p, gen_stamp(&mut rng), truth);
            let budget = match rng.below(3) {
                0 => Budget::new_single(0.5),
                1 => Budget::new_double(0.5, 0.25),
                _ => Budget::new_triple(0.5, 0.25, 0.5),
            };
            let val = Narsese::from_task(Task::new(s, budget));
            let toks = ref_narsese_toks(&val, f);
            // positions of the number tokens of budget and truth ("0.5" / "0.25" never occur elsewhere)
            let positions: Vec<usize> = toks
                .iter()
                .enumerate()
                .filter(|(_, (t, _))| t == "0.5" || t == "0.25")
                .map(|(i, _)| i)
                .collect();
            assert!(!positions.is_empty());
            let pos = *rng.pick(&positions);
            let mut bad = toks.clone();
            bad[pos].0 = rng.pick(&bad_nums).to_string();
            let s_bad = toks_std(&bad);
            let r = quiet(|| enum_parse(f, &s_bad));
            match r {
                Ok(Err(_)) => {}
                Ok(Ok(x)) => panic!("C12 {f:?} enum parser accepted out-of-range number in {s_bad:?} as {}", canon_narsese(&x)),
                Err(p) => panic!("C12 {f:?} enum parser panicked on {s_bad:?}: {p}"),
            }
            let r = quiet(|| lex_pipeline(f, &s_bad));
            match r {
                Ok(Err(_)) => {}
                Ok(Ok(x)) => panic!("C12 {f:?} lexical pipeline accepted out-of-range number in {s_bad:?} as {}", canon_narsese(&x)),
                Err(p) => panic!("C12 {f:?} lexical pipeline panicked on {s_bad:?}: {p}"),
            }
            // boundary values are accepted
            let mut edge = toks.clone();
            edge[pos].0 = rng.pick(&["0", "1", "1.0", "0.0", "1.000", "0.9999999999999999"]).to_string();
            let s_edge = toks_std(&edge);
            let r = enum_parse(f, &s_edge);
            assert!(r.is_ok(), "C12 {f:?} boundary number rejected in {s_edge:?}: {:?}", r.err());
            assert_eq!(wf_narsese(r.as_ref().unwrap(), true), Ok(()), "C12 {f:?} value of {s_edge:?}");
        }
        // (2) exact: empty / wrong-arity compounds are rejected by the enum parser
        let (l, r_) = v.br_compound;
        let sep = v.sep;
        let ph = v.prefix[1];
        let conn = |c: u8| v.connecter[(c - INTER_EXT) as usize];
        let mut bad: Vec<String> = vec![
            format!("{}{}", v.br_ext.0, v.br_ext.1),
            format!("{}{}", v.br_int.0, v.br_int.1),
            format!("{} {}", v.br_ext.0, v.br_ext.1),
            format!("{l}{}{sep}a{sep}b{r_}", conn(NEG)),
            format!("{l}{}{sep}a{r_}", conn(DIFF_EXT)),
            format!("{l}{}{sep}a{sep}b{sep}c{r_}", conn(DIFF_EXT)),
            format!("{l}{}{sep}a{r_}", conn(DIFF_INT)),
            format!("{l}{}{sep}a{sep}b{sep}c{r_}", conn(DIFF_INT)),
            format!("{l}{}{sep}a{sep}b{r_}", conn(IMAGE_EXT)),
            format!("{l}{}{sep}a{r_}", conn(IMAGE_INT)),
            format!("{l}{}{sep}{ph}{r_}", conn(IMAGE_EXT)),
            format!("{l}{}{sep}{ph}{r_}", conn(IMAGE_INT)),
            format!("{l}a{sep}b{r_}"),
        ];
        for c in INTER_EXT..=PAR {
            bad.push(format!("{l}{}{sep}{r_}", conn(c)));
            bad.push(format!("{l}{}{r_}", conn(c)));
        }
        for k in 2..7 {
            // a prefix without a name
            bad.push(v.prefix[k].to_string());
            bad.push(format!("{}{}{}", v.br_ext.0, v.prefix[k], v.br_ext.1));
            bad.push(format!("{}a {} {}{}", v.br_stmt.0, v.copula[0], v.prefix[k], v.br_stmt.1));
        }
        for s in bad.iter() {
            let r = quiet(|| enum_parse(f, s));
            match r {
                Ok(Err(_)) => {}
                Ok(Ok(x)) => panic!("C12 {f:?} enum parser accepted ill-formed {s:?} as {}", canon_narsese(&x)),
                Err(p) => panic!("C12 {f:?} enum parser panicked on {s:?}: {p}"),
            }
            // the same strings as sentence
            let s2 = format!("{s}{}", v.punct[0]);
            let r = quiet(|| enum_parse(f, &s2));
            assert!(matches!(r, Ok(Err(_))), "C12 {f:?} enum parser on ill-formed {s2:?}: {:?}", r.map(|x| x.map(|v| canon_narsese(&v))));
        }
        // (3) token-level mutants of valid output: whatever is accepted must be well-formed
        let mut n_ok = 0;
        for _ in 0..400 {
            let d = gen_d(&mut rng, 3, &CFG_STD);
            let val = gen_narsese_of(&mut rng, &d);
            let mut toks = ref_narsese_toks(&val, f);
            for _ in 0..rng.range(1, 2) {
                if toks.is_empty() {
                    break;
                }
                let i = rng.below(toks.len());
                match rng.below(4) {
                    0 => {
                        toks.remove(i);
                    }
                    1 => {
                        let t = toks[i].clone();
                        toks.insert(i, t);
                    }
                    2 => {
                        let j = rng.below(toks.len());
                        toks.swap(i, j);
                    }
                    _ => toks[i].0 = rng.pick(&["1.5", "0", "", "a", "-1"]).to_string(),
                }
            }
            let s = toks_std(&toks);
            let r = quiet(|| enum_parse(f, &s));
            match r {
                Ok(Ok(x)) => {
                    n_ok += 1;
                    assert_eq!(wf_narsese(&x, true), Ok(()), "C12 {f:?} enum parser result for {s:?}");
                    assert_eq!(format_everywhere(&x), Ok(()), "C12 {f:?} formatting the result of {s:?}");
                    // and it survives a round trip through its own format
                    let again = enum_parse(f, &fmt.format_narsese(&x));
                    assert!(again.is_ok(), "C12 {f:?} re-parse of formatted result of {s:?}");
                }
                Ok(Err(_)) => {}
                Err(p) => panic!("C12 {f:?} enum parser panicked on {s:?}: {p}"),
            }
            let r = quiet(|| lex_pipeline(f, &s));
            match r {
                Ok(Ok(x)) => {
                    assert_eq!(wf_narsese(&x, false), Ok(()), "C12 {f:?} fold result for {s:?}");
                    assert_eq!(format_everywhere(&x), Ok(()), "C12 {f:?} formatting the fold result of {s:?}");
                }
                Ok(Err(_)) => {}
                Err(p) => panic!("C12 {f:?} lexical pipeline panicked on {s:?}: {p}"),
            }
        }
        assert!(n_ok > 20, "C12 {f:?} mutant generator too destructive ({n_ok} accepted)");
    }
    // (4) exact ASCII examples
    for (s, expected) in [
        ("(/, _, a)", "term:ME@0[W(\"a\")]"),
        ("(\\, a, b, _)", "term:MI@2[W(\"a\"),W(\"b\")]"),
        ("(/, a, _, b)", "term:ME@1[W(\"a\"),W(\"b\")]"),
        ("a. %0;1%", "sentence:J[W(\"a\") T(0.0,1.0) S:eternal]"),
        ("$1;0;1$ a! %1%", "task:TASK[B(1.0,0.0,1.0) G[W(\"a\") T(1.0) S:eternal]]"),
    ] {
        assert_eq!(canon_result(&enum_parse(F::Ascii, s)), expected, "C12 ASCII enum parse of {s:?}");
        assert_eq!(canon_result(&lex_pipeline(F::Ascii, s)), expected, "C12 ASCII lexical pipeline of {s:?}");
    }
}

// ---------------------------------------------------------------------------------------------
// C06 / C07
// ---------------------------------------------------------------------------------------------

fn hash_default(t: &impl Hash) -> u64 {
    let mut h = DefaultHasher::new();
    t.hash(&mut h);
    h.finish()
}
fn hash_with(bh: &impl BuildHasher, t: &impl Hash) -> u64 {
    let mut h = bh.build_hasher();
    t.hash(&mut h);
    h.finish()
}

/// visit a random node of the description
fn with_random_node(d: &mut D, rng: &mut Rng, f: &mut dyn FnMut(&mut D, &mut Rng)) {
    if d.kids.is_empty() || rng.chance(1, 3) {
        f(d, rng);
    } else {
        let i = rng.below(d.kids.len());
        with_random_node(&mut d.kids[i], rng, f);
    }
}
/// a small change of a description (the result may or may not denote the same term)
fn mutate_d(d: &D, rng: &mut Rng) -> D {
    let mut d2 = d.clone();
    with_random_node(&mut d2, rng, &mut |n: &mut D, rng: &mut Rng| {
        let c = n.c;
        if c == INTERVAL {
            match rng.below(2) {
                0 => n.num = n.num.wrapping_add(1),
                _ => *n = D::word(&n.num.to_string()),
            }
        } else if c == PLACEHOLDER {
            *n = D::word("pp");
        } else if is_named_atom(c) {
            match rng.below(4) {
                0 => n.name.push('x'),
                1 => n.name = n.name.to_uppercase() + "q",
                2 => {
                    let kinds = [WORD, IVAR, DVAR, QVAR, OPERATOR];
                    let mut k = *rng.pick(&kinds);
                    while k == c {
                        k = *rng.pick(&kinds);
                    }
                    n.c = k;
                }
                _ => *n = D::node(SET_EXT, vec![n.clone()]),
            }
        } else if is_image_c(c) {
            match rng.below(4) {
                0 => n.c = if c == IMAGE_EXT { IMAGE_INT } else { IMAGE_EXT },
                1 => n.num = (n.num + 1) % (n.kids.len() + 1),
                2 => n.kids.reverse(),
                _ => {
                    n.c = PRODUCT;
                    n.num = 0;
                }
            }
        } else if is_unordered_c(c) || is_seq_c(c) {
            match rng.below(5) {
                0 => {
                    let all = [SET_EXT, SET_INT, INTER_EXT, INTER_INT, CONJ, DISJ, PAR, PRODUCT, SEQ];
                    let mut k = *rng.pick(&all);
                    while k == c {
                        k = *rng.pick(&all);
                    }
                    n.c = k;
                }
                1 => n.kids.reverse(),
                2 => n.kids.push(D::word("extra")),
                3 => {
                    if n.kids.len() > 1 {
                        n.kids.pop();
                    } else {
                        n.kids[0] = D::word("other");
                    }
                }
                _ => {
                    let k0 = n.kids[0].clone();
                    n.kids.push(k0);
                }
            }
        } else if c == NEG {
            match rng.below(2) {
                0 => *n = n.kids[0].clone(),
                _ => n.kids[0] = D::node(NEG, vec![n.kids[0].clone()]),
            }
        } else {
            // binary
            match rng.below(3) {
                0 => n.kids.swap(0, 1),
                1 => {
                    let all = [DIFF_EXT, DIFF_INT, INH, SIM, IMPL, EQUIV, IMPL_PRED, IMPL_CONC, IMPL_RETRO, EQUIV_PRED, EQUIV_CONC];
                    let mut k = *rng.pick(&all);
                    while k == c {
                        k = *rng.pick(&all);
                    }
                    n.c = k;
                }
                _ => n.kids[1] = n.kids[0].clone(),
            }
        }
    });
    d2
}

/// pairs of descriptions: identical, slightly different, and random from a tiny universe
fn gen_pairs(seed: u64, n: usize) -> Vec<(D, D)> {
    let mut rng = Rng::new(seed);
    let mut v = vec![];
    for d in gen_all_ctors(&mut rng, 2, &CFG_SMALL) {
        v.push((d.clone(), d.clone()));
        v.push((d.clone(), mutate_d(&d, &mut rng)));
        v.push((d.clone(), mutate_d(&d, &mut rng)));
    }
    for i in 0..n {
        let d = gen_d(&mut rng, 1 + i % 3, &CFG_SMALL);
        v.push((d.clone(), d.clone()));
        v.push((d.clone(), mutate_d(&d, &mut rng)));
        let e = gen_d(&mut rng, 1 + i % 2, &CFG_SMALL);
        v.push((d, e));
    }
    // hand-made: nested unordered compounds, duplicates, symmetric statements
    let (a, b, c) = (D::word("a"), D::word("b"), D::word("c"));
    let set = |c_: u8, k: Vec<D>| D::node(c_, k);
    v.push((
        set(SET_EXT, vec![set(SET_INT, vec![a.clone(), b.clone()]), set(CONJ, vec![b.clone(), c.clone()])]),
        set(SET_EXT, vec![set(CONJ, vec![c.clone(), b.clone(), c.clone()]), set(SET_INT, vec![b.clone(), a.clone()])]),
    ));
    v.push((
        set(SIM, vec![set(EQUIV, vec![a.clone(), b.clone()]), c.clone()]),
        set(SIM, vec![c.clone(), set(EQUIV, vec![b.clone(), a.clone()])]),
    ));
    v.push((set(SIM, vec![a.clone(), b.clone()]), set(SIM, vec![a.clone(), a.clone()])));
    v.push((set(SIM, vec![a.clone(), a.clone()]), set(SIM, vec![b.clone(), b.clone()])));
    v.push((set(EQUIV_PRED, vec![a.clone(), b.clone()]), set(EQUIV_PRED, vec![b.clone(), a.clone()])));
    v.push((set(EQUIV_CONC, vec![a.clone(), b.clone()]), set(EQUIV_CONC, vec![b.clone(), a.clone()])));
    v.push((set(INH, vec![a.clone(), b.clone()]), set(INH, vec![b.clone(), a.clone()])));
    v.push((set(PRODUCT, vec![a.clone(), b.clone()]), set(PRODUCT, vec![b.clone(), a.clone()])));
    v.push((set(PRODUCT, vec![a.clone(), a.clone()]), set(PRODUCT, vec![a.clone()])));
    v.push((set(CONJ, vec![a.clone(), a.clone()]), set(CONJ, vec![a.clone()])));
    v.push((set(CONJ, vec![a.clone(), b.clone()]), set(CONJ, vec![a.clone()])));
    v.push((set(CONJ, vec![a.clone(), b.clone()]), set(CONJ, vec![a.clone(), c.clone()])));
    v.push((D::image(IMAGE_EXT, 0, vec![a.clone(), b.clone()]), D::image(IMAGE_EXT, 1, vec![a.clone(), b.clone()])));
    v.push((D::image(IMAGE_EXT, 2, vec![a.clone(), b.clone()]), D::image(IMAGE_INT, 2, vec![a.clone(), b.clone()])));
    v.push((D::interval(1), D::word("1")));
    v.push((D::interval(1), D::interval(2)));
    v.push((D::placeholder(), D::word("u")));
    v.push((D::placeholder(), D::placeholder()));
    for k1 in [WORD, IVAR, DVAR, QVAR, OPERATOR] {
        for k2 in [WORD, IVAR, DVAR, QVAR, OPERATOR] {
            v.push((D::atom(k1, "n"), D::atom(k2, "n")));
        }
    }
    v
}

#[test]
fn oracle_c06() {
    let mut rng = Rng::new(0xC06);
    let pairs = gen_pairs(0x6060, 400);
    let (mut n_eq, mut n_ne) = (0, 0);
    for (d1, d2) in pairs.iter() {
        let expected = dcanon(d1) == dcanon(d2);
        let a = build_shuffled(d1, &mut rng);
        let a2 = build_shuffled(d1, &mut rng);
        let b = build_shuffled(d2, &mut rng);
        let b2 = build_plain(d2);
        assert_eq!(canon(&a), dcanon(d1), "C06 builder sanity for {d1:?}");
        assert_eq!(canon(&b), dcanon(d2), "C06 builder sanity for {d2:?}");
        // reflexive, also across separately built copies and clones
        assert!(a == a, "C06 reflexivity of {}", canon(&a));
        assert!(a == a.clone(), "C06 clone equality of {}", canon(&a));
        assert!(a == a2 && a2 == a, "C06 two constructions of {} are equal", canon(&a));
        assert!(b == b2 && b2 == b, "C06 two constructions of {} are equal", canon(&b));
        // the expected answer, symmetric, stable
        for (x, y) in [(&a, &b), (&a2, &b), (&a, &b2), (&a2, &b2)] {
            assert_eq!(x == y, expected, "C06 {} == {}", canon(x), canon(y));
            assert_eq!(y == x, expected, "C06 symmetry: {} == {}", canon(y), canon(x));
            assert_eq!(x != y, !expected, "C06 `!=` of {} and {}", canon(x), canon(y));
        }
        assert_eq!(a == b, a == b, "C06 stability");
        if expected {
            n_eq += 1;
        } else {
            n_ne += 1;
        }
        // wrapped in sentences / tasks / narsese values (derived equality goes through Term)
        let sa = Sentence::new_judgement(a.clone(), Truth::new_double(1.0, 0.9), Stamp::Present);
        let sb = Sentence::new_judgement(b.clone(), Truth::new_double(1.0, 0.9), Stamp::Present);
        assert_eq!(sa == sb, expected, "C06 sentences over {} / {}", canon(&a), canon(&b));
        let ta = Task::new(sa.clone(), Budget::new_single(0.5));
        let tb = Task::new(sb.clone(), Budget::new_single(0.5));
        assert_eq!(ta == tb, expected, "C06 tasks over {} / {}", canon(&a), canon(&b));
        assert_eq!(
            Narsese::from_task(ta.clone()) == Narsese::from_task(tb.clone()),
            expected,
            "C06 narsese values over {} / {}",
            canon(&a),
            canon(&b)
        );
        assert!(Narsese::from_term(a.clone()) != Narsese::from_sentence(sa.clone()), "C06 term value vs sentence value");
        assert!(Narsese::from_sentence(sa.clone()) != Narsese::from_task(ta.clone()), "C06 sentence value vs task value");
        // as components of a bigger term
        for c in [SET_EXT, PRODUCT, NEG, INH, SIM] {
            let wrap = |t: &Term| match c {
                SET_EXT => Term::new_set_extension(vec![t.clone(), Term::new_word("w")]),
                PRODUCT => Term::new_product(vec![Term::new_word("w"), t.clone()]),
                NEG => Term::new_negation(t.clone()),
                INH => Term::new_inheritance(t.clone(), Term::new_word("w")),
                _ => Term::new_similarity(Term::new_word("w"), t.clone()),
            };
            assert_eq!(wrap(&a) == wrap(&b), expected, "C06 inside constructor {c}: {} / {}", canon(&a), canon(&b));
        }
        // two parses of the same text
        let s = E_ASCII.format_term(&a);
        let p1 = E_ASCII.parse::<Narsese>(&s).unwrap().try_into_term().unwrap();
        let p2 = E_ASCII.parse::<Narsese>(&s).unwrap().try_into_term().unwrap();
        assert!(p1 == p2 && p2 == p1, "C06 two parses of {s:?}");
        assert!(p1 == a && a == p1, "C06 parse of {s:?} equals the formatted term");
        assert_eq!(p1 == b, expected, "C06 parse of {s:?} vs {}", canon(&b));
    }
    assert!(n_eq > 200 && n_ne > 200, "C06 pair generator balance: {n_eq} equal / {n_ne} unequal");
    // transitivity over a tiny universe
    let mut rng2 = Rng::new(0x6061);
    let universe: Vec<Term> = (0..60)
        .map(|_| {
            let d = gen_d(&mut rng2, 1, &CFG_SMALL);
            build_shuffled(&d, &mut rng2)
        })
        .collect();
    for x in universe.iter() {
        for y in universe.iter() {
            let exy = x == y;
            assert_eq!(exy, canon(x) == canon(y), "C06 universe: {} == {}", canon(x), canon(y));
            if !exy {
                continue;
            }
            for z in universe.iter() {
                if y == z {
                    assert!(x == z, "C06 transitivity {} / {} / {}", canon(x), canon(y), canon(z));
                }
            }
        }
    }
    // sentence-level differences
    let t = Term::new_word("a");
    let base = Sentence::new_judgement(t.clone(), Truth::new_double(1.0, 0.9), Stamp::Fixed(1));
    let others = [
        Sentence::new_goal(t.clone(), Truth::new_double(1.0, 0.9), Stamp::Fixed(1)),
        Sentence::new_judgement(t.clone(), Truth::new_double(1.0, 0.5), Stamp::Fixed(1)),
        Sentence::new_judgement(t.clone(), Truth::new_single(1.0), Stamp::Fixed(1)),
        Sentence::new_judgement(t.clone(), Truth::new_double(1.0, 0.9), Stamp::Fixed(2)),
        Sentence::new_judgement(t.clone(), Truth::new_double(1.0, 0.9), Stamp::Eternal),
        Sentence::new_question(t.clone(), Stamp::Fixed(1)),
        Sentence::new_quest(t.clone(), Stamp::Fixed(1)),
    ];
    assert!(base == base.clone(), "C06 sentence reflexivity");
    for o in others.iter() {
        assert!(base != *o, "C06 sentences {} and {} differ", canon_sentence(&base), canon_sentence(o));
    }
    assert!(
        Task::new(base.clone(), Budget::new_single(0.5)) != Task::new(base.clone(), Budget::new_single(0.25)),
        "C06 tasks with different budgets differ"
    );
    assert!(
        Task::new(base.clone(), Budget::new_empty()) != Task::new(base.clone(), Budget::new_single(0.0)),
        "C06 empty budget vs single zero budget"
    );
}

#[test]
fn oracle_c07() {
    let mut rng = Rng::new(0xC07);
    let pairs = gen_pairs(0x7070, 400);
    let rs1 = std::collections::hash_map::RandomState::new();
    let rs2 = std::collections::hash_map::RandomState::new();
    let mut big_set: HashSet<Term> = HashSet::new();
    let mut big_map: HashMap<Term, String> = HashMap::new();
    let mut canons: HashSet<String> = HashSet::new();
    let mut all_ds: Vec<D> = vec![];
    for (d1, d2) in pairs.iter() {
        for d in [d1, d2] {
            let a = build_shuffled(d, &mut rng);
            let b = build_shuffled(d, &mut rng);
            let c = build_plain(d);
            let text = E_ASCII.format_term(&a);
            let p = E_ASCII.parse::<Narsese>(&text).unwrap().try_into_term().unwrap();
            for other in [&b, &c, &p, &a.clone()] {
                assert_eq!(hash_default(&a), hash_default(other), "C07 DefaultHasher hash of two constructions of {}", canon(&a));
                assert_eq!(hash_with(&rs1, &a), hash_with(&rs1, other), "C07 RandomState hash of two constructions of {}", canon(&a));
                assert_eq!(hash_with(&rs2, &a), hash_with(&rs2, other), "C07 RandomState hash of two constructions of {}", canon(&a));
            }
            // single-element containers
            let mut hs = HashSet::new();
            hs.insert(a.clone());
            assert!(hs.contains(&b) && hs.contains(&c) && hs.contains(&p), "C07 HashSet{{a}}.contains(equal) for {}", canon(&a));
            assert!(!hs.insert(b.clone()), "C07 inserting an equal term into HashSet for {}", canon(&a));
            assert_eq!(hs.len(), 1, "C07 HashSet size for {}", canon(&a));
            // sentences / tasks hash? (they do not implement Hash; only terms are keys)
            big_set.insert(a.clone());
            big_set.insert(b.clone());
            big_map.insert(c.clone(), dcanon(d));
            big_map.insert(p.clone(), dcanon(d));
            canons.insert(dcanon(d));
            all_ds.push(d.clone());
        }
        // an unequal pair inside the same set stays two elements
        if dcanon(d1) != dcanon(d2) {
            let mut hs = HashSet::new();
            hs.insert(build_shuffled(d1, &mut rng));
            hs.insert(build_shuffled(d2, &mut rng));
            assert_eq!(hs.len(), 2, "C07 two different terms in one HashSet: {} / {}", dcanon(d1), dcanon(d2));
        }
    }
    assert_eq!(big_set.len(), canons.len(), "C07 number of distinct terms in a big HashSet");
    assert_eq!(big_map.len(), canons.len(), "C07 number of distinct keys in a big HashMap");
    for d in all_ds.iter() {
        let key = build_shuffled(d, &mut rng);
        assert!(big_set.contains(&key), "C07 lookup of {} in a big HashSet", dcanon(d));
        assert_eq!(big_map.get(&key), Some(&dcanon(d)), "C07 lookup of {} in a big HashMap", dcanon(d));
        // as a component of a set-like term (nested hashing)
        let outer1 = Term::new_conjunction(vec![key.clone(), Term::new_word("k")]);
        let outer2 = Term::new_conjunction(vec![Term::new_word("k"), build_shuffled(d, &mut rng)]);
        assert_eq!(hash_default(&outer1), hash_default(&outer2), "C07 hash of conjunction around {}", dcanon(d));
        assert!(outer1 == outer2, "C07 equality of conjunction around {}", dcanon(d));
    }
    // symmetric statements, explicit
    let (a, b) = (Term::new_word("a"), Term::new_variable_dependent("b"));
    for (x, y) in [
        (Term::new_similarity(a.clone(), b.clone()), Term::new_similarity(b.clone(), a.clone())),
        (Term::new_equivalence(a.clone(), b.clone()), Term::new_equivalence(b.clone(), a.clone())),
        (Term::new_equivalence_concurrent(a.clone(), b.clone()), Term::new_equivalence_concurrent(b.clone(), a.clone())),
    ] {
        assert!(x == y, "C07 symmetric statements equal: {}", canon(&x));
        assert_eq!(hash_default(&x), hash_default(&y), "C07 symmetric statement hash: {}", canon(&x));
        let mut m = HashMap::new();
        m.insert(x.clone(), 1);
        assert_eq!(m.get(&y), Some(&1), "C07 HashMap lookup with swapped operands: {}", canon(&x));
    }
    // big unordered compound built in many orders
    let elems: Vec<D> = (0..12).map(|i| D::word(&format!("e{i}"))).collect();
    let d = D::node(PAR, elems);
    let reference = build_plain(&d);
    for _ in 0..30 {
        let other = build_shuffled(&d, &mut rng);
        assert!(reference == other, "C07 12-element parallel conjunction equality");
        assert_eq!(hash_default(&reference), hash_default(&other), "C07 12-element parallel conjunction hash");
    }
}

// ---------------------------------------------------------------------------------------------
// C09
// ---------------------------------------------------------------------------------------------

#[test]
fn oracle_c09() {
    let mut rng = Rng::new(0xC09);
    let mut values: Vec<Narsese> = vec![];
    for d in gen_all_ctors(&mut rng, 2, &CFG_STD) {
        values.push(gen_narsese_of(&mut rng, &d));
    }
    for v in all_items_of(&build_plain(&D::node(INH, vec![D::atom(IVAR, "x"), D::word("go-to")]))) {
        if rng.chance(1, 4) {
            values.push(v);
        }
    }
    for _ in 0..200 {
        let d = gen_d(&mut rng, 3, &CFG_STD);
        values.push(gen_narsese_of(&mut rng, &d));
    }
    let wild = [' ', '\t', '\n', '\r', '\u{3000}', '\u{a0}', '\u{2003}'];
    for v in values.iter() {
        let expected = canon_narsese(v);
        for f in FORMATS {
            let toks = ref_narsese_toks(v, f);
            let mut variants: Vec<String> = vec![
                toks_std(&toks),
                toks_spaced(&toks, || String::new()),
                toks_spaced(&toks, || " ".to_string()),
                toks_spaced(&toks, || "   ".to_string()),
            ];
            for _ in 0..3 {
                variants.push(toks_spaced(&toks, || " ".repeat(rng.below(4))));
            }
            for w in variants.iter() {
                let r = enum_parse(f, w);
                assert_eq!(canon_result(&r), expected, "C09 {f:?} enum parse of {w:?} (error: {:?})", r.as_ref().err());
                assert_eq!(r.as_ref().ok(), Some(v), "C09 {f:?} enum parse == original for {w:?}");
                let r = lex_pipeline(f, w);
                assert_eq!(canon_result(&r), expected, "C09 {f:?} lexical pipeline on {w:?} (error: {:?})", r.as_ref().err());
            }
            // the lexical parser ignores every Unicode whitespace
            for _ in 0..2 {
                let w = toks_spaced(&toks, || (0..rng.below(3)).map(|_| *rng.pick(&wild)).collect());
                let r = lex_pipeline(f, &w);
                assert_eq!(canon_result(&r), expected, "C09 {f:?} lexical pipeline on {w:?} (error: {:?})", r.as_ref().err());
                // ... exactly like the compact text
                let compact: String = w.chars().filter(|c| !c.is_whitespace()).collect();
                assert_eq!(
                    format!("{:?}", lex_parse(f, &w).ok()),
                    format!("{:?}", lex_parse(f, &compact).ok()),
                    "C09 {f:?} lexical parse of {w:?} vs compact"
                );
                // what the macros do: strip whitespace, then parse the characters
                let r = ef(f).parse_chars::<Narsese>(compact.chars().collect());
                assert_eq!(canon_result(&r), expected, "C09 {f:?} parse_chars of stripped {w:?}");
            }
        }
    }
    // the inline macros
    let m1 = narsese::enum_nse!("$ 0.5 ; 0.75 ; 0.4 $ < ( &/ , < { ball } --> [ left ] > , < ( * , { SELF } , $any , #some ) --> ^do > ) ==> < { SELF } --> [ good ] > > . :! -1 : % 1.0 ; 0.9 %");
    let m2 = narsese::enum_nse!("$0.5;0.75;0.4$<(&/,<{ball}-->[left]>,<(*,{SELF},$any,#some)-->^do>)==><{SELF}-->[good]>>.:!-1:%1.0;0.9%");
    let m3 = narsese::enum_nse!("$0.5;0.75;0.4$\t<(&/,\n<{ball}-->[left]>,\u{3000}<(*,{SELF},$any,#some)-->^do>)==><{SELF}-->[good]>>.\n:!-1:\r\n%1.0;0.9%");
    let direct = E_ASCII
        .parse::<Narsese>("$0.5;0.75;0.4$ <(&/, <{ball} --> [left]>, <(*, {SELF}, $any, #some) --> ^do>) ==> <{SELF} --> [good]>>. :!-1: %1.0;0.9%")
        .unwrap();
    assert_eq!(canon_narsese(&m1), canon_narsese(&direct), "C09 enum_nse! with spaces everywhere");
    assert_eq!(canon_narsese(&m2), canon_narsese(&direct), "C09 enum_nse! without spaces");
    assert_eq!(canon_narsese(&m3), canon_narsese(&direct), "C09 enum_nse! with tabs and newlines");
    assert_eq!(
        canon_narsese(&direct),
        "task:TASK[B(0.5,0.75,0.4) J[IMP[SQ[INH[SE{W(\"ball\")},SI{W(\"left\")}],INH[PR[SE{W(\"SELF\")},I(\"any\"),D(\"some\")],O(\"do\")]],INH[SE{W(\"SELF\")},SI{W(\"good\")}]] T(1.0,0.9) S:fixed(-1)]]",
        "C09 sample task value"
    );
    let t: Term = narsese::enum_nse_term!("< a  -->  b >");
    assert_eq!(canon(&t), "INH[W(\"a\"),W(\"b\")]", "C09 enum_nse_term!");
    let s: Sentence = narsese::enum_nse_sentence!(" < a --> b > . ");
    assert_eq!(canon_sentence(&s), "J[INH[W(\"a\"),W(\"b\")] T() S:eternal]", "C09 enum_nse_sentence!");
    let k: Task = narsese::enum_nse_task!(" < a --> b > ? :|: ");
    assert_eq!(canon_task(&k), "TASK[B() Q[INH[W(\"a\"),W(\"b\")] S:present]]", "C09 enum_nse_task!");
    let l1 = narsese::lexical_nse!("$ 0.5 $ < a\t--> (*, b , c ) > .  :|:  % 1 ; 0.9 %");
    let l2 = lfi::FORMAT_ASCII.parse("$0.5$<a-->(*,b,c)>.:|:%1;0.9%").unwrap();
    assert_eq!(l1, l2, "C09 lexical_nse! with whitespace");
    let lt: lx::Term = narsese::lexical_nse_term!("< a --> b >");
    assert_eq!(lt, lx::Term::new_statement("-->", lx::Term::new_atom("", "a"), lx::Term::new_atom("", "b")), "C09 lexical_nse_term!");
    let ls: lx::Sentence = narsese::lexical_nse_sentence!("a . :|:");
    assert_eq!(ls, lx::Sentence::new(lx::Term::new_atom("", "a"), ".", ":|:", Vec::<String>::new()), "C09 lexical_nse_sentence!");
    let lk: lx::Task = narsese::lexical_nse_task!("a !");
    assert_eq!(lk, lx::Task::new(Vec::<String>::new(), lx::Term::new_atom("", "a"), "!", "", Vec::<String>::new()), "C09 lexical_nse_task!");
}

// ---------------------------------------------------------------------------------------------
// C10
// ---------------------------------------------------------------------------------------------

#[test]
fn oracle_c10() {
    let mut rng = Rng::new(0xC10);
    let both = |f: F, s: &str, expected: &str, what: &str| {
        let r = enum_parse(f, s);
        assert_eq!(canon_result(&r), format!("term:{expected}"), "C10 {f:?} {what}: enum parse of {s:?} (error {:?})", r.as_ref().err());
        let r = lex_pipeline(f, s);
        assert_eq!(canon_result(&r), format!("term:{expected}"), "C10 {f:?} {what}: lexical pipeline on {s:?} (error {:?})", r.as_ref().err());
    };
    for f in FORMATS {
        let v = vocab(f);
        let sp = v.space_terms;
        for _ in 0..60 {
            let ds = gen_d(&mut rng, 2, &CFG_STD);
            let dp = gen_d(&mut rng, 2, &CFG_STD);
            let (s_t, p_t) = (build_shuffled(&ds, &mut rng), build_shuffled(&dp, &mut rng));
            let (s_s, p_s) = (ref_format_term(&s_t, f), ref_format_term(&p_t, f));
            let stmt = |cop: &str| format!("{}{s_s}{sp}{cop}{sp}{p_s}{}", v.br_stmt.0, v.br_stmt.1);
            let (cs, cp) = (dcanon(&ds), dcanon(&dp));
            both(f, &stmt(v.copula_derived[0]), &format!("INH[SE{{{cs}}},{cp}]"), "instance");
            both(f, &stmt(v.copula_derived[1]), &format!("INH[{cs},SI{{{cp}}}]"), "property");
            both(f, &stmt(v.copula_derived[2]), &format!("INH[SE{{{cs}}},SI{{{cp}}}]"), "instance-property");
            both(f, &stmt(v.copula_derived[3]), &format!("EQVP[{cp},{cs}]"), "retrospective equivalence");
            // the desugared spellings give the same values
            let ext = |x: &str| format!("{}{x}{}", v.br_ext.0, v.br_ext.1);
            let int = |x: &str| format!("{}{x}{}", v.br_int.0, v.br_int.1);
            let inh = |a: &str, b: &str| format!("{}{a}{sp}{}{sp}{b}{}", v.br_stmt.0, v.copula[0], v.br_stmt.1);
            for (sugar, plain) in [
                (stmt(v.copula_derived[0]), inh(&ext(&s_s), &p_s)),
                (stmt(v.copula_derived[1]), inh(&s_s, &int(&p_s))),
                (stmt(v.copula_derived[2]), inh(&ext(&s_s), &int(&p_s))),
                (stmt(v.copula_derived[3]), format!("{}{p_s}{sp}{}{sp}{s_s}{}", v.br_stmt.0, v.copula[7], v.br_stmt.1)),
            ] {
                assert_eq!(canon_result(&enum_parse(f, &sugar)), canon_result(&enum_parse(f, &plain)), "C10 {f:?} enum: {sugar:?} vs {plain:?}");
                assert_eq!(canon_result(&lex_pipeline(f, &sugar)), canon_result(&lex_pipeline(f, &plain)), "C10 {f:?} lexical: {sugar:?} vs {plain:?}");
                assert!(enum_parse(f, &sugar).ok() == enum_parse(f, &plain).ok(), "C10 {f:?} enum ==: {sugar:?} vs {plain:?}");
            }
            // the library constructors build the same desugared forms
            assert_eq!(canon(&Term::new_instance(s_t.clone(), p_t.clone())), format!("INH[SE{{{cs}}},{cp}]"), "C10 new_instance");
            assert_eq!(canon(&Term::new_property(s_t.clone(), p_t.clone())), format!("INH[{cs},SI{{{cp}}}]"), "C10 new_property");
            assert_eq!(canon(&Term::new_instance_property(s_t.clone(), p_t.clone())), format!("INH[SE{{{cs}}},SI{{{cp}}}]"), "C10 new_instance_property");
            assert_eq!(canon(&Term::new_equivalence_retrospective(s_t.clone(), p_t.clone())), format!("EQVP[{cp},{cs}]"), "C10 new_equivalence_retrospective");
        }
        // images: the index is the position of the placeholder, the rest keeps its order
        for c in [IMAGE_EXT, IMAGE_INT] {
            for n in 1..=4usize {
                let ds: Vec<D> = (0..n).map(|_| gen_d(&mut rng, 1, &CFG_STD)).collect();
                let strs: Vec<String> = ds.iter().map(|d| ref_format_term(&build_shuffled(d, &mut rng), f)).collect();
                let cs: Vec<String> = ds.iter().map(dcanon).collect();
                for idx in 0..=n {
                    let mut parts = strs.clone();
                    parts.insert(idx, v.prefix[1].to_string());
                    let s = format!(
                        "{}{}{}{sp}{}{}",
                        v.br_compound.0,
                        v.connecter[(c - INTER_EXT) as usize],
                        v.sep,
                        parts.join(&format!("{}{sp}", v.sep)),
                        v.br_compound.1
                    );
                    let expected = format!("{}@{idx}[{}]", CTOR_TAGS[c as usize], cs.join(","));
                    both(f, &s, &expected, "image");
                    // constructor helpers agree
                    let mut comps: Vec<Term> = ds.iter().map(build_plain).collect();
                    comps.insert(idx, Term::new_placeholder());
                    let built = if c == IMAGE_EXT {
                        Term::to_image_extension_with_placeholder(comps.clone())
                    } else {
                        Term::to_image_intension_with_placeholder(comps.clone())
                    };
                    assert_eq!(built.as_ref().map(canon), Some(expected.clone()), "C10 to_image_*_with_placeholder at {idx}");
                    let mut target = vec![];
                    assert_eq!(Term::to_terms_with_image(comps, &mut target), Some(idx), "C10 to_terms_with_image index");
                    assert_eq!(target.iter().map(canon).collect::<Vec<_>>(), cs, "C10 to_terms_with_image rest");
                }
                let comps: Vec<Term> = ds.iter().map(build_plain).collect();
                assert!(Term::to_image_extension_with_placeholder(comps.clone()).is_none(), "C10 no placeholder -> None");
                assert!(Term::to_image_intension_with_placeholder(comps.clone()).is_none(), "C10 no placeholder -> None");
                let mut target = vec![];
                assert_eq!(Term::to_terms_with_image(comps, &mut target), None, "C10 to_terms_with_image without placeholder");
                assert_eq!(target.len(), n, "C10 to_terms_with_image keeps all terms");
            }
        }
        // several placeholders: the FIRST one gives the index, the others stay ordinary components
        for c in [IMAGE_EXT, IMAGE_INT] {
            let (ph, sep, conn) = (v.prefix[1], v.sep, v.connecter[(c - INTER_EXT) as usize]);
            let (l, r) = v.br_compound;
            let tag = CTOR_TAGS[c as usize];
            both(f, &format!("{l}{conn}{sep}a{sep}{ph}{sep}b{sep}{ph}{r}"), &format!("{tag}@1[W(\"a\"),W(\"b\"),_]"), "two placeholders");
            both(f, &format!("{l}{conn}{sep}{ph}{sep}{ph}{sep}b{r}"), &format!("{tag}@0[_,W(\"b\")]"), "two leading placeholders");
            both(f, &format!("{l}{conn}{sep}a{sep}b{sep}{ph}{sep}{ph}{sep}{ph}{r}"), &format!("{tag}@2[W(\"a\"),W(\"b\"),_,_]"), "three trailing placeholders");
        }
        // intervals denote their decimal value; placeholders ignore what follows the prefix
        for (digits, value) in [("0", 0usize), ("7", 7), ("0007", 7), ("30000", 30000), ("18446744073709551615", usize::MAX), ("00", 0)] {
            both(f, &format!("{}{digits}", v.prefix[5]), &format!("N({value})"), "interval");
            let s = format!("{}{}{digits}{}", v.br_ext.0, v.prefix[5], v.br_ext.1);
            both(f, &s, &format!("SE{{N({value})}}"), "interval in set");
        }
        for tail in ["", "abc", "1", "x_y"] {
            both(f, &format!("{}{tail}", v.prefix[1]), "_", "placeholder");
            let s = format!(
                "{}{}{}{sp}{}{tail}{}{sp}a{}",
                v.br_compound.0, v.connecter[5], v.sep, v.prefix[1], v.sep, v.br_compound.1
            );
            both(f, &s, "ME@0[W(\"a\")]", "placeholder with tail in image");
        }
    }
}

// ---------------------------------------------------------------------------------------------
// C11: a recogniser for the PEG grammar published in the README ("Standard ASCII Lexicon")
// ---------------------------------------------------------------------------------------------

/// PEG parser over the whitespace-free character sequence (the grammar skips WHITE_SPACE implicitly)
struct Peg {
    s: Vec<char>,
}
/// `punct_sym = PUNCTUATION | SYMBOL`
fn peg_punct_sym(c: char) -> bool {
    if c.is_ascii() {
        c.is_ascii_punctuation()
    } else {
        !c.is_alphanumeric() && !c.is_whitespace() && !c.is_control()
    }
}
/// `atom_char = LETTER | NUMBER | "_" | "-"`
fn peg_atom_char(c: char) -> bool {
    c.is_alphanumeric() || c == '_' || c == '-'
}
impl Peg {
    fn new(text: &str) -> Peg {
        Peg { s: text.chars().filter(|c| !c.is_whitespace()).collect() }
    }
    fn at(&self, i: usize) -> Option<char> {
        self.s.get(i).copied()
    }
    fn lit(&self, i: usize, l: &str) -> Option<usize> {
        let mut j = i;
        for c in l.chars() {
            if self.at(j) != Some(c) {
                return None;
            }
            j += 1;
        }
        Some(j)
    }
    fn slice(&self, i: usize, j: usize) -> String {
        self.s[i..j].iter().collect()
    }
    fn punct(&self, i: usize) -> Option<usize> {
        match self.at(i) {
            Some(c) if peg_punct_sym(c) => Some(i + 1),
            _ => None,
        }
    }
    /// copula = (p "-" p) | (p "=" p) | ("=" p ">") | ("<" p ">")
    fn copula(&self, i: usize) -> Option<usize> {
        for mid in ["-", "="] {
            if let Some(j) = self.punct(i).and_then(|j| self.lit(j, mid)).and_then(|j| self.punct(j)) {
                return Some(j);
            }
        }
        if let Some(j) = self.lit(i, "=").and_then(|j| self.punct(j)).and_then(|j| self.lit(j, ">")) {
            return Some(j);
        }
        if let Some(j) = self.lit(i, "<").and_then(|j| self.punct(j)).and_then(|j| self.lit(j, ">")) {
            return Some(j);
        }
        None
    }
    /// atom_content = atom_char (!copula atom_char)*
    fn atom_content(&self, i: usize) -> Option<usize> {
        match self.at(i) {
            Some(c) if peg_atom_char(c) => {}
            _ => return None,
        }
        let mut j = i + 1;
        while let Some(c) = self.at(j) {
            if self.copula(j).is_some() || !peg_atom_char(c) {
                break;
            }
            j += 1;
        }
        Some(j)
    }
    /// atom = "_" | atom_prefix atom_content | atom_content
    fn atom(&self, i: usize) -> Option<(lx::Term, usize)> {
        if let Some(j) = self.lit(i, "_") {
            return Some((lx::Term::new_atom("_", ""), j));
        }
        // atom_prefix = punct_sym+
        let mut j = i;
        while let Some(k) = self.punct(j) {
            j = k;
        }
        if j > i {
            if let Some(k) = self.atom_content(j) {
                return Some((lx::Term::new_atom(self.slice(i, j), self.slice(j, k)), k));
            }
        }
        let k = self.atom_content(i)?;
        Some((lx::Term::new_atom("", self.slice(i, k)), k))
    }
    /// term ("," term)*
    fn term_list(&self, i: usize) -> Option<(Vec<lx::Term>, usize)> {
        let (t, mut j) = self.term(i)?;
        let mut v = vec![t];
        loop {
            match self.lit(j, ",").and_then(|k| self.term(k)) {
                Some((t, k)) => {
                    v.push(t);
                    j = k;
                }
                None => return Some((v, j)),
            }
        }
    }
    fn compound(&self, i: usize) -> Option<(lx::Term, usize)> {
        if let Some(j) = self.lit(i, "(") {
            // connecter = punct_sym (!"," punct_sym)*
            let r = (|| {
                let mut k = self.punct(j)?;
                while self.at(k) != Some(',') {
                    match self.punct(k) {
                        Some(n) => k = n,
                        None => break,
                    }
                }
                let connecter = self.slice(j, k);
                let k = self.lit(k, ",")?;
                let (terms, k) = self.term_list(k)?;
                let k = self.lit(k, ")")?;
                Some((lx::Term::new_compound(connecter, terms), k))
            })();
            if r.is_some() {
                return r;
            }
        }
        for (l, r) in [("{", "}"), ("[", "]")] {
            if let Some(j) = self.lit(i, l) {
                let res = (|| {
                    let (terms, k) = self.term_list(j)?;
                    let k = self.lit(k, r)?;
                    Some((lx::Term::new_set(l, terms, r), k))
                })();
                if res.is_some() {
                    return res;
                }
            }
        }
        None
    }
    fn statement(&self, i: usize) -> Option<(lx::Term, usize)> {
        let j = self.lit(i, "<")?;
        let (subject, j) = self.term(j)?;
        let k = self.copula(j)?;
        let copula = self.slice(j, k);
        let (predicate, k) = self.term(k)?;
        let k = self.lit(k, ">")?;
        Some((lx::Term::new_statement(copula, subject, predicate), k))
    }
    /// term = statement | compound | atom
    fn term(&self, i: usize) -> Option<(lx::Term, usize)> {
        self.statement(i).or_else(|| self.compound(i)).or_else(|| self.atom(i))
    }
    fn number(&self, i: usize) -> Option<usize> {
        let mut j = i;
        while matches!(self.at(j), Some(c) if c.is_ascii_digit() || c == '.') {
            j += 1;
        }
        if j > i {
            Some(j)
        } else {
            None
        }
    }
    /// number (";" number)* ";"*
    fn number_list(&self, i: usize) -> Option<(Vec<String>, usize)> {
        let mut j = self.number(i)?;
        let mut v = vec![self.slice(i, j)];
        loop {
            match self.lit(j, ";").and_then(|k| self.number(k).map(|e| (k, e))) {
                Some((k, e)) => {
                    v.push(self.slice(k, e));
                    j = e;
                }
                None => break,
            }
        }
        while let Some(k) = self.lit(j, ";") {
            j = k;
        }
        Some((v, j))
    }
    fn budget(&self, i: usize) -> Option<(Vec<String>, usize)> {
        let j = self.lit(i, "$")?;
        let (v, j) = self.number_list(j).unwrap_or((vec![], j));
        let j = self.lit(j, "$")?;
        Some((v, j))
    }
    fn truth(&self, i: usize) -> Option<(Vec<String>, usize)> {
        let j = self.lit(i, "%")?;
        let (v, j) = self.number_list(j)?;
        let j = self.lit(j, "%")?;
        Some((v, j))
    }
    /// ":" (!":" ANY)+ ":"
    fn stamp(&self, i: usize) -> Option<(String, usize)> {
        let j = self.lit(i, ":")?;
        let mut k = j;
        while matches!(self.at(k), Some(c) if c != ':') {
            k += 1;
        }
        if k == j {
            return None;
        }
        let k = self.lit(k, ":")?;
        Some((self.slice(i, k), k))
    }
    /// sentence = term punctuation stamp? truth?
    fn sentence(&self, i: usize) -> Option<(lx::Sentence, usize)> {
        let (term, j) = self.term(i)?;
        let k = self.punct(j)?;
        let punctuation = self.slice(j, k);
        let (stamp, k) = self.stamp(k).unwrap_or((String::new(), k));
        let (truth, k) = self.truth(k).unwrap_or((vec![], k));
        Some((lx::Sentence::new(term, punctuation, stamp, truth), k))
    }
    /// narsese = task | sentence | term (each alternative has to cover the whole input)
    fn narsese(&self) -> Option<lx::Narsese> {
        let n = self.s.len();
        if let Some((budget, j)) = self.budget(0) {
            if let Some((sentence, k)) = self.sentence(j) {
                if k == n {
                    return Some(lx::Narsese::from_task(lx::Task { budget, sentence }));
                }
            }
        }
        if let Some((sentence, k)) = self.sentence(0) {
            if k == n {
                return Some(lx::Narsese::from_sentence(sentence));
            }
        }
        if let Some((term, k)) = self.term(0) {
            if k == n {
                return Some(lx::Narsese::from_term(term));
            }
        }
        None
    }
}

fn check_c11(text: &str, kind: &str) {
    // character classes of ASCII output
    let peg = Peg::new(text);
    let tree = peg.narsese();
    let tree = match tree {
        Some(t) => t,
        None => panic!("C11 the reference grammar rejects ASCII output {text:?}"),
    };
    assert_eq!(kind_of(&tree), kind, "C11 kind of {text:?} according to the reference grammar");
    let lib = lfi::FORMAT_ASCII.parse(text);
    match lib {
        Ok(l) => {
            assert_eq!(format!("{l:?}"), format!("{tree:?}"), "C11 reference tree vs lexical parser tree of {text:?}");
            assert_eq!(l, tree, "C11 reference tree == lexical parser tree of {text:?}");
        }
        Err(e) => panic!("C11 the ASCII lexical parser rejects {text:?}: {e}"),
    }
    // parentheses are balanced (braces and square brackets also occur inside copulas)
    let mut depth = 0i64;
    for c in text.chars() {
        match c {
            '(' => depth += 1,
            ')' => {
                depth -= 1;
                assert!(depth >= 0, "C11 balanced parentheses in {text:?}");
            }
            _ => {}
        }
    }
    assert_eq!(depth, 0, "C11 balanced parentheses in {text:?}");
}

#[test]
fn oracle_c11() {
    let mut rng = Rng::new(0xC11);
    // the lexicon itself (OpenNARS-compatible keywords)
    let f = &E_ASCII;
    let got = [
        f.atom.prefix_word, f.atom.prefix_placeholder, f.atom.prefix_variable_independent, f.atom.prefix_variable_dependent,
        f.atom.prefix_variable_query, f.atom.prefix_interval, f.atom.prefix_operator,
        f.compound.brackets.0, f.compound.brackets.1, f.compound.separator,
        f.compound.brackets_set_extension.0, f.compound.brackets_set_extension.1,
        f.compound.brackets_set_intension.0, f.compound.brackets_set_intension.1,
        f.compound.connecter_intersection_extension, f.compound.connecter_intersection_intension,
        f.compound.connecter_difference_extension, f.compound.connecter_difference_intension,
        f.compound.connecter_product, f.compound.connecter_image_extension, f.compound.connecter_image_intension,
        f.compound.connecter_conjunction, f.compound.connecter_disjunction, f.compound.connecter_negation,
        f.compound.connecter_conjunction_sequential, f.compound.connecter_conjunction_parallel,
        f.statement.brackets.0, f.statement.brackets.1,
        f.statement.copula_inheritance, f.statement.copula_similarity, f.statement.copula_implication, f.statement.copula_equivalence,
        f.statement.copula_instance, f.statement.copula_property, f.statement.copula_instance_property,
        f.statement.copula_implication_predictive, f.statement.copula_implication_concurrent, f.statement.copula_implication_retrospective,
        f.statement.copula_equivalence_predictive, f.statement.copula_equivalence_concurrent, f.statement.copula_equivalence_retrospective,
        f.sentence.punctuation_judgement, f.sentence.punctuation_goal, f.sentence.punctuation_question, f.sentence.punctuation_quest,
        f.sentence.stamp_brackets.0, f.sentence.stamp_brackets.1, f.sentence.stamp_past, f.sentence.stamp_present, f.sentence.stamp_future, f.sentence.stamp_fixed,
        f.sentence.truth_brackets.0, f.sentence.truth_brackets.1, f.sentence.truth_separator,
        f.task.budget_brackets.0, f.task.budget_brackets.1, f.task.budget_separator,
        f.space.parse, f.space.format_terms, f.space.format_items,
    ];
    let expected = [
        "", "_", "$", "#", "?", "+", "^", "(", ")", ",", "{", "}", "[", "]", "&", "|", "-", "~", "*", "/", "\\", "&&", "||", "--", "&/", "&|",
        "<", ">", "-->", "<->", "==>", "<=>", "{--", "--]", "{-]", "=/>", "=|>", "=\\>", "</>", "<|>", "<\\>",
        ".", "!", "?", "@", ":", ":", "\\", "|", "/", "!", "%", "%", ";", "$", "$", ";", " ", " ", " ",
    ];
    assert_eq!(got.to_vec(), expected.to_vec(), "C11 ASCII lexicon of the enum format");
    // enum values
    let mut values: Vec<Narsese> = vec![];
    for d in gen_all_ctors(&mut rng, 2, &CFG_STD) {
        let t = build_shuffled(&d, &mut rng);
        values.push(Narsese::from_term(t.clone()));
        values.push(gen_narsese_of(&mut rng, &d));
    }
    values.extend(all_items_of(&build_plain(&D::node(INH, vec![D::atom(QVAR, "x"), D::interval(7)]))));
    values.extend(all_items_of(&build_plain(&D::atom(IVAR, "x"))));
    for _ in 0..250 {
        let d = gen_d(&mut rng, 4, &CFG_STD);
        values.push(gen_narsese_of(&mut rng, &d));
    }
    for v in values.iter() {
        let text = E_ASCII.format_narsese(v);
        assert!(
            text.chars().all(|c| c == ' ' || c.is_ascii_graphic()),
            "C11 ASCII output contains a non-ASCII character: {text:?}"
        );
        check_c11(&text, kind_of(v));
        // the derived tree folds back to the value
        let tree = Peg::new(&text).narsese().unwrap();
        let folded: Result<Narsese, _> = tree.try_fold_into(&E_ASCII);
        assert_eq!(
            folded.ok().as_ref().map(canon_narsese),
            Some(canon_narsese(v)),
            "C11 fold of the reference tree of {text:?}"
        );
    }
    // lexical values (arity-valid, ASCII vocabulary incl. derived copulas; <= 2 truth, <= 3 budget entries as
    // well as longer lists, which the grammar allows too)
    for i in 0..300 {
        let x = gen_lx_narsese(&mut rng, F::Ascii, i % 2 == 0, true);
        let text = lfi::FORMAT_ASCII.format_narsese(&x);
        check_c11(&text, kind_of(&x));
        let tree = Peg::new(&text).narsese().unwrap();
        assert_eq!(tree, x, "C11 reference tree of {text:?} vs the formatted lexical value");
    }
}

// ---------------------------------------------------------------------------------------------
// C13
// ---------------------------------------------------------------------------------------------

fn edge_floats() -> Vec<f64> {
    vec![
        f64::NEG_INFINITY,
        -1e300,
        -1.0,
        -0.5,
        -1e-300,
        -5e-324,
        -0.0,
        0.0,
        5e-324,
        f64::MIN_POSITIVE / 2.0,
        f64::MIN_POSITIVE,
        1e-300,
        0.25,
        0.5,
        0.9,
        1.0 - f64::EPSILON / 2.0,
        1.0,
        1.0 + f64::EPSILON,
        1.0000001,
        1.5,
        2.0,
        1e300,
        f64::MAX,
        f64::INFINITY,
        f64::NAN,
    ]
}
/// the specification: a number in the closed unit interval (NaN and infinities are not)
fn spec_valid(x: f64) -> bool {
    x >= 0.0 && x <= 1.0
}
fn same_bits(a: f64, b: f64) -> bool {
    a.to_bits() == b.to_bits()
}

#[test]
fn oracle_c13() {
    let mut rng = Rng::new(0xC13);
    let fs = edge_floats();
    // single constructors, accessors
    for &x in fs.iter() {
        let ok = spec_valid(x);
        // truth
        let r = quiet(|| Truth::new_single(x));
        assert_eq!(r.is_ok(), ok, "C13 Truth::new_single({x:?}) panics iff out of [0,1]");
        let tf = Truth::try_from_floats([x].into_iter());
        assert_eq!(tf.is_ok(), ok, "C13 Truth::try_from_floats([{x:?}])");
        if let Ok(t) = r {
            assert!(matches!(t, Truth::Single(y) if same_bits(x, y)), "C13 Truth::new_single({x:?}) stores {t:?}");
            assert!(same_bits(t.f(), x), "C13 Truth::f of single {x:?}");
            assert!(same_bits(t.get_frequency(), x) && same_bits(t.frequency(), x), "C13 frequency of single {x:?}");
            assert!(quiet(|| t.c()).is_err(), "C13 Truth::c of a single truth must panic");
            assert!(quiet(|| t.get_confidence()).is_err(), "C13 confidence of a single truth must panic");
            assert!(quiet(|| t.get_frequency_confidence()).is_err(), "C13 (f, c) of a single truth must panic");
            assert_eq!(tf.as_ref().ok().map(canon_truth), Some(canon_truth(&t)), "C13 try_from_floats vs new_single for {x:?}");
        }
        // budget
        let r = quiet(|| Budget::new_single(x));
        assert_eq!(r.is_ok(), ok, "C13 Budget::new_single({x:?}) panics iff out of [0,1]");
        let bf = Budget::try_from_floats([x].into_iter());
        assert_eq!(bf.is_ok(), ok, "C13 Budget::try_from_floats([{x:?}])");
        if let Ok(b) = r {
            assert!(matches!(b, Budget::Single(y) if same_bits(x, y)), "C13 Budget::new_single({x:?}) stores {b:?}");
            assert!(same_bits(b.p(), x) && same_bits(b.priority(), x), "C13 Budget::p of single {x:?}");
            assert!(quiet(|| b.d()).is_err() && quiet(|| b.duality()).is_err(), "C13 Budget::d of a single budget must panic");
            assert!(quiet(|| b.q()).is_err() && quiet(|| b.quality()).is_err(), "C13 Budget::q of a single budget must panic");
            assert!(!b.is_empty(), "C13 single budget is not empty");
        }
        // evidence number API
        assert_eq!(EvidentNumber::is_valid(&x), ok, "C13 is_valid({x:?})");
        assert_eq!(EvidentNumber::try_validate(&x).is_ok(), ok, "C13 try_validate({x:?})");
        if ok {
            assert!(same_bits(*EvidentNumber::try_validate(&x).unwrap(), x), "C13 try_validate returns its argument");
        }
        let r = quiet(|| *EvidentNumber::validate(&x));
        assert_eq!(r.is_ok(), ok, "C13 validate({x:?}) panics iff invalid");
        if let Ok(y) = r {
            assert!(same_bits(x, y), "C13 validate returns its argument");
        }
        if ok {
            for n in 1..=12usize {
                let root = EvidentNumber::root(x, n);
                assert!(spec_valid(root), "C13 root({x:?}, {n}) = {root:?} is valid");
                assert!(EvidentNumber::is_valid(&root), "C13 is_valid(root({x:?}, {n}))");
                let back = root.powi(n as i32);
                assert!((back - x).abs() <= 1e-9, "C13 root({x:?}, {n})^{n} = {back:?}");
            }
            assert!(same_bits(EvidentNumber::root(x, 1), x) || x == 0.0, "C13 root(x, 1) = x for {x:?}");
        }
    }
    assert!(same_bits(<f64 as EvidentNumber>::zero(), 0.0), "C13 zero()");
    assert!(same_bits(<f64 as EvidentNumber>::one(), 1.0), "C13 one()");
    assert!((EvidentNumber::root(0.25f64, 2) - 0.5).abs() < 1e-12, "C13 root(0.25, 2)");
    assert!((EvidentNumber::root(0.125f64, 3) - 0.5).abs() < 1e-12, "C13 root(0.125, 3)");
    // empty
    let t = Truth::new_empty();
    assert!(matches!(t, Truth::Empty), "C13 Truth::new_empty");
    assert!(quiet(|| t.f()).is_err() && quiet(|| t.c()).is_err(), "C13 accessors of the empty truth must panic");
    assert!(matches!(Truth::try_from_floats(std::iter::empty()), Ok(Truth::Empty)), "C13 Truth::try_from_floats([])");
    let b = Budget::new_empty();
    assert!(matches!(b, Budget::Empty) && b.is_empty(), "C13 Budget::new_empty");
    assert!(quiet(|| b.p()).is_err() && quiet(|| b.d()).is_err() && quiet(|| b.q()).is_err(), "C13 accessors of the empty budget must panic");
    assert!(matches!(Budget::try_from_floats(std::iter::empty()), Ok(Budget::Empty)), "C13 Budget::try_from_floats([])");
    // pairs and triples
    for &x in fs.iter() {
        for &y in fs.iter() {
            let ok = spec_valid(x) && spec_valid(y);
            let r = quiet(|| Truth::new_double(x, y));
            assert_eq!(r.is_ok(), ok, "C13 Truth::new_double({x:?}, {y:?})");
            let tf = Truth::try_from_floats([x, y].into_iter());
            assert_eq!(tf.is_ok(), ok, "C13 Truth::try_from_floats([{x:?}, {y:?}])");
            if let Ok(t) = r {
                assert!(matches!(t, Truth::Double(a, b) if same_bits(a, x) && same_bits(b, y)), "C13 Truth::new_double({x:?}, {y:?}) stores {t:?}");
                assert!(same_bits(t.f(), x) && same_bits(t.c(), y), "C13 f / c of double ({x:?}, {y:?})");
                let (f2, c2) = t.get_frequency_confidence();
                assert!(same_bits(f2, x) && same_bits(c2, y), "C13 (f, c) of double ({x:?}, {y:?})");
                assert_eq!(tf.as_ref().ok().map(canon_truth), Some(canon_truth(&t)), "C13 try_from_floats vs new_double");
            }
            let r = quiet(|| Budget::new_double(x, y));
            assert_eq!(r.is_ok(), ok, "C13 Budget::new_double({x:?}, {y:?})");
            assert_eq!(Budget::try_from_floats([x, y].into_iter()).is_ok(), ok, "C13 Budget::try_from_floats([{x:?}, {y:?}])");
            if let Ok(b) = r {
                assert!(matches!(b, Budget::Double(a, c) if same_bits(a, x) && same_bits(c, y)), "C13 Budget::new_double stores {b:?}");
                assert!(same_bits(b.p(), x) && same_bits(b.d(), y), "C13 p / d of double budget");
                assert!(quiet(|| b.q()).is_err(), "C13 q of a double budget must panic");
                assert!(!b.is_empty(), "C13 double budget is not empty");
            }
            // the evidence pair
            let pair = (x, y);
            assert!(same_bits(pair.get_frequency(), x) && same_bits(pair.get_confidence(), y), "C13 pair as evident value");
        }
    }
    for _ in 0..1500 {
        let (x, y, z) = (*rng.pick(&fs), *rng.pick(&fs), *rng.pick(&fs));
        let ok = spec_valid(x) && spec_valid(y) && spec_valid(z);
        let r = quiet(|| Budget::new_triple(x, y, z));
        assert_eq!(r.is_ok(), ok, "C13 Budget::new_triple({x:?}, {y:?}, {z:?})");
        assert_eq!(Budget::try_from_floats([x, y, z].into_iter()).is_ok(), ok, "C13 Budget::try_from_floats([{x:?}, {y:?}, {z:?}])");
        if let Ok(b) = r {
            assert!(
                matches!(b, Budget::Triple(a, c, d) if same_bits(a, x) && same_bits(c, y) && same_bits(d, z)),
                "C13 Budget::new_triple stores {b:?}"
            );
            assert!(same_bits(b.p(), x) && same_bits(b.d(), y) && same_bits(b.q(), z), "C13 p / d / q of triple");
            assert!(same_bits(b.priority(), x) && same_bits(b.duality(), y) && same_bits(b.quality(), z), "C13 priority / duality / quality");
            assert!(!b.is_empty(), "C13 triple budget is not empty");
        }
    }
    // arities 0..5: surplus items are ignored (not even looked at)
    for _ in 0..3000 {
        let n = rng.below(6);
        let xs: Vec<f64> = (0..n).map(|_| if rng.chance(2, 3) { *rng.pick(&[0.0, 0.5, 1.0, 0.25, -0.0, 5e-324]) } else { *rng.pick(&fs) }).collect();
        let t_ok = xs.iter().take(2).all(|x| spec_valid(*x));
        let t = quiet(|| Truth::try_from_floats(xs.clone().into_iter()));
        let t = match t {
            Ok(t) => t,
            Err(p) => panic!("C13 Truth::try_from_floats({xs:?}) panicked: {p}"),
        };
        assert_eq!(t.is_ok(), t_ok, "C13 Truth::try_from_floats({xs:?})");
        if let Ok(t) = t {
            let got = truth_floats(&t);
            assert_eq!(got.len(), n.min(2), "C13 Truth::try_from_floats({xs:?}) arity");
            assert!(got.iter().zip(xs.iter()).all(|(a, b)| same_bits(*a, *b)), "C13 Truth::try_from_floats({xs:?}) keeps the numbers: {t:?}");
        }
        let b_ok = xs.iter().take(3).all(|x| spec_valid(*x));
        let b = quiet(|| Budget::try_from_floats(xs.clone().into_iter()));
        let b = match b {
            Ok(b) => b,
            Err(p) => panic!("C13 Budget::try_from_floats({xs:?}) panicked: {p}"),
        };
        assert_eq!(b.is_ok(), b_ok, "C13 Budget::try_from_floats({xs:?})");
        if let Ok(b) = b {
            let got = budget_floats(&b);
            assert_eq!(got.len(), n.min(3), "C13 Budget::try_from_floats({xs:?}) arity");
            assert!(got.iter().zip(xs.iter()).all(|(a, c)| same_bits(*a, *c)), "C13 Budget::try_from_floats({xs:?}) keeps the numbers: {b:?}");
            assert_eq!(b.is_empty(), n == 0, "C13 Budget::is_empty for {xs:?}");
        }
    }
    // the mutable evidence interface
    let mut t = Truth::new_double(0.5, 0.25);
    t.set_frequency(&0.75);
    assert_eq!(canon_truth(&t), "T(0.75,0.25)", "C13 set_frequency");
    t.set_confidence(&1.0);
    assert_eq!(canon_truth(&t), "T(0.75,1.0)", "C13 set_confidence");
    t.set_frequency_confidence(&0.0, &0.5);
    assert_eq!(canon_truth(&t), "T(0.0,0.5)", "C13 set_frequency_confidence");
    let mut t = Truth::new_single(0.5);
    t.set_frequency(&0.25);
    assert_eq!(canon_truth(&t), "T(0.25)", "C13 set_frequency on single");
    assert!(quiet(|| { let mut t = Truth::new_single(0.5); t.set_confidence(&0.5) }).is_err(), "C13 set_confidence on a single truth must panic");
    assert!(quiet(|| { let mut t = Truth::new_empty(); t.set_frequency(&0.5) }).is_err(), "C13 set_frequency on the empty truth must panic");
    assert!(quiet(|| { let mut t = Truth::new_empty(); t.set_confidence(&0.5) }).is_err(), "C13 set_confidence on the empty truth must panic");
}

// ---------------------------------------------------------------------------------------------
// C14
// ---------------------------------------------------------------------------------------------

fn expected_category(c: u8) -> TermCategory {
    if c <= OPERATOR {
        TermCategory::Atom
    } else if c <= PAR {
        TermCategory::Compound
    } else {
        TermCategory::Statement
    }
}
fn expected_capacity(c: u8) -> TermCapacity {
    match c {
        c if c <= OPERATOR => TermCapacity::Atom,
        NEG => TermCapacity::Unary,
        SIM | EQUIV | EQUIV_CONC => TermCapacity::BinarySet,
        DIFF_EXT | DIFF_INT | INH | IMPL | IMPL_PRED | IMPL_CONC | IMPL_RETRO | EQUIV_PRED => TermCapacity::BinaryVec,
        PRODUCT | IMAGE_EXT | IMAGE_INT | SEQ => TermCapacity::Vec,
        _ => TermCapacity::Set,
    }
}

fn check_c14(d: &D, rng: &mut Rng) {
    let t = build_shuffled(d, rng);
    let name = dcanon(d);
    let c = d.c;
    // category: exactly one
    let cat = expected_category(c);
    assert_eq!(t.get_category(), cat, "C14 category of {name}");
    assert_eq!(t.is_atom(), cat == TermCategory::Atom, "C14 is_atom of {name}");
    assert_eq!(t.is_compound(), cat == TermCategory::Compound, "C14 is_compound of {name}");
    assert_eq!(t.is_statement(), cat == TermCategory::Statement, "C14 is_statement of {name}");
    // capacity
    let cap = expected_capacity(c);
    assert_eq!(t.get_capacity(), cap, "C14 capacity of {name}");
    assert_eq!(t.is_capacity_atom(), cap == TermCapacity::Atom, "C14 is_capacity_atom of {name}");
    assert_eq!(t.is_capacity_unary(), cap == TermCapacity::Unary, "C14 is_capacity_unary of {name}");
    assert_eq!(t.is_capacity_binary_vec(), cap == TermCapacity::BinaryVec, "C14 is_capacity_binary_vec of {name}");
    assert_eq!(t.is_capacity_binary_set(), cap == TermCapacity::BinarySet, "C14 is_capacity_binary_set of {name}");
    assert_eq!(t.is_capacity_binary(), matches!(cap, TermCapacity::BinaryVec | TermCapacity::BinarySet), "C14 is_capacity_binary of {name}");
    assert_eq!(t.is_capacity_vec(), cap == TermCapacity::Vec, "C14 is_capacity_vec of {name}");
    assert_eq!(t.is_capacity_set(), cap == TermCapacity::Set, "C14 is_capacity_set of {name}");
    assert_eq!(t.is_capacity_multi(), matches!(cap, TermCapacity::Vec | TermCapacity::Set), "C14 is_capacity_multi of {name}");
    assert_eq!(t.is_image(), is_image_c(c), "C14 is_image of {name}");
    // expected components
    let kid_canons: Vec<String> = d.kids.iter().map(dcanon).collect();
    let ordered = !(is_unordered_c(c) || is_symmetric_c(c));
    let expected_plain: Vec<String> = if is_atom_c(c) { vec![name.clone()] } else { kid_canons.clone() };
    let mut expected_full = expected_plain.clone();
    if is_image_c(c) {
        expected_full.insert(d.num, "_".to_string());
    }
    let norm = |mut v: Vec<String>| {
        if !ordered {
            v.sort();
            if is_unordered_c(c) {
                v.dedup();
            }
        }
        v
    };
    let got_plain: Vec<String> = t.get_components().into_iter().map(canon).collect();
    let got_full: Vec<String> = t.get_components_including_placeholder().into_iter().map(canon).collect();
    assert_eq!(norm(got_plain.clone()), norm(expected_plain.clone()), "C14 get_components of {name}");
    assert_eq!(norm(got_full.clone()), norm(expected_full.clone()), "C14 get_components_including_placeholder of {name}");
    if is_image_c(c) {
        assert_eq!(got_full[d.num], "_", "C14 placeholder position in {name}");
        assert!(!got_plain.contains(&"_".to_string()) || d.kids.iter().any(|k| k.c == PLACEHOLDER), "C14 no placeholder in get_components of {name}");
        assert_eq!(got_full.len(), got_plain.len() + 1, "C14 the placeholder adds one component to {name}");
    } else {
        assert_eq!(got_full, got_plain, "C14 the two accessors agree on the non-image {name}");
    }
    match t.get_compound_components() {
        Some(v) => {
            assert!(cat == TermCategory::Compound, "C14 get_compound_components is Some only for compounds: {name}");
            let got: Vec<String> = v.into_iter().map(canon).collect();
            assert_eq!(norm(got), norm(expected_plain.clone()), "C14 get_compound_components of {name}");
        }
        None => assert!(cat != TermCategory::Compound, "C14 get_compound_components is None for the compound {name}"),
    }
    // capacity vs count
    let count = got_full.len();
    match cap {
        TermCapacity::Atom | TermCapacity::Unary => assert_eq!(count, 1, "C14 component count of {name}"),
        TermCapacity::BinaryVec | TermCapacity::BinarySet => assert_eq!(count, 2, "C14 component count of {name}"),
        _ => {}
    }
    // consuming extraction
    let extracted: Vec<String> = t.clone().extract_terms_to_vec().iter().map(canon).collect();
    let extracted2: Vec<String> = t.clone().extract_terms().map(|x| canon(&x)).collect();
    assert_eq!(extracted, extracted2, "C14 extract_terms vs extract_terms_to_vec of {name}");
    assert_eq!(norm(extracted.clone()), norm(expected_full.clone()), "C14 extraction of {name}");
    if matches!(cap, TermCapacity::Atom | TermCapacity::Unary | TermCapacity::BinaryVec | TermCapacity::Vec) {
        assert_eq!(extracted, got_full, "C14 extraction order vs accessor order of {name}");
        assert_eq!(extracted, expected_full, "C14 extraction order of {name}");
    } else if cap == TermCapacity::BinarySet {
        assert_eq!(extracted, got_full, "C14 extraction order vs accessor order of the symmetric {name}");
    }
    if is_image_c(c) {
        assert_eq!(extracted[d.num], "_", "C14 extracted placeholder position in {name}");
    }
    // atom name accessors
    let expected_name = match c {
        PLACEHOLDER => Some(String::new()),
        INTERVAL => Some(d.num.to_string()),
        c if is_atom_c(c) => Some(d.name.clone()),
        _ => None,
    };
    assert_eq!(t.get_atom_name(), expected_name, "C14 get_atom_name of {name}");
    let unchecked = quiet(|| t.get_atom_name_unchecked());
    assert_eq!(unchecked.ok(), expected_name, "C14 get_atom_name_unchecked of {name} (panics iff not an atom)");
    assert!(std::ptr::eq(t.get_term(), &t), "C14 Term::get_term is the term itself");
    // ImageIterator directly
    if let Term::ImageExtension(i, v) | Term::ImageIntension(i, v) = &t {
        let it: Vec<String> = ImageIterator::new(v.iter(), *i).map(canon).collect();
        assert_eq!(it, expected_full, "C14 ImageIterator over {name}");
    }
}

#[test]
fn oracle_c14() {
    let mut rng = Rng::new(0xC14);
    for _ in 0..4 {
        for d in gen_all_ctors(&mut rng, 2, &CFG_STD) {
            check_c14(&d, &mut rng);
        }
    }
    for _ in 0..300 {
        let d = gen_d(&mut rng, 3, &CFG_STD);
        check_c14(&d, &mut rng);
        // every sub-term too
        for k in d.kids.iter() {
            check_c14(k, &mut rng);
        }
    }
    // image with the placeholder behind the last component and with explicit placeholders among the rest
    check_c14(&D::image(IMAGE_EXT, 3, vec![D::word("a"), D::word("b"), D::word("c")]), &mut rng);
    check_c14(&D::image(IMAGE_INT, 0, vec![D::word("a")]), &mut rng);
    // base numbers
    assert_eq!(TermCapacity::Atom.base_num(), 1, "C14 base_num Atom");
    assert_eq!(TermCapacity::Unary.base_num(), 1, "C14 base_num Unary");
    assert_eq!(TermCapacity::BinaryVec.base_num(), 2, "C14 base_num BinaryVec");
    assert_eq!(TermCapacity::BinarySet.base_num(), 2, "C14 base_num BinarySet");
    assert_eq!(TermCapacity::Vec.base_num(), 3, "C14 base_num Vec");
    assert_eq!(TermCapacity::Set.base_num(), 3, "C14 base_num Set");
    // lexical terms
    for f in FORMATS {
        for _ in 0..200 {
            let x = gen_lx_term(&mut rng, 3, f, true);
            let (cat, cap, comps): (TermCategory, TermCapacity, Vec<lx::Term>) = match &x {
                lx::Term::Atom { .. } => (TermCategory::Atom, TermCapacity::Atom, vec![x.clone()]),
                lx::Term::Compound { terms, .. } => (TermCategory::Compound, TermCapacity::Vec, terms.clone()),
                lx::Term::Set { terms, .. } => (TermCategory::Compound, TermCapacity::Vec, terms.clone()),
                lx::Term::Statement { subject, predicate, .. } => {
                    (TermCategory::Statement, TermCapacity::BinaryVec, vec![(**subject).clone(), (**predicate).clone()])
                }
            };
            assert_eq!(x.get_category(), cat, "C14 lexical category of {x:?}");
            assert_eq!(x.is_atom(), cat == TermCategory::Atom, "C14 lexical is_atom of {x:?}");
            assert_eq!(x.is_compound(), cat == TermCategory::Compound, "C14 lexical is_compound of {x:?}");
            assert_eq!(x.is_statement(), cat == TermCategory::Statement, "C14 lexical is_statement of {x:?}");
            assert_eq!(x.get_capacity(), cap, "C14 lexical capacity of {x:?}");
            assert_eq!(x.clone().extract_terms_to_vec(), comps, "C14 lexical extraction of {x:?}");
            assert_eq!(x.clone().extract_terms().collect::<Vec<_>>(), comps, "C14 lexical extract_terms of {x:?}");
            let folded: Result<Term, _> = x.clone().try_fold_into(ef(f));
            match folded {
                Ok(t) => assert_eq!(t.get_category(), cat, "C14 {f:?} category of lexical {x:?} vs its fold {}", canon(&t)),
                Err(e) => panic!("C14 {f:?} fold of arity-valid lexical term {x:?} failed: {e:?}"),
            }
        }
    }
}

// ---------------------------------------------------------------------------------------------
// C15
// ---------------------------------------------------------------------------------------------

#[test]
fn oracle_c15() {
    let mut rng = Rng::new(0xC15);
    // enum side
    for i in 0..200 {
        let d = gen_d(&mut rng, 2, &CFG_STD);
        let term = build_shuffled(&d, &mut rng);
        let sentence = gen_sentence_of(&mut rng, term.clone());
        let budget = if i % 3 == 0 { Budget::new_empty() } else { gen_budget(&mut rng) };
        let task = Task::new(sentence.clone(), budget.clone());
        let cs = canon_sentence(&sentence);
        // accessors of sentence and task
        assert_eq!(canon(sentence.get_term()), canon(&term), "C15 Sentence::get_term of {cs}");
        assert_eq!(canon(task.get_term()), canon(&term), "C15 Task::get_term of {cs}");
        assert_eq!(canon_sentence(task.get_sentence()), cs, "C15 Task::get_sentence of {cs}");
        assert_eq!(canon_budget(task.get_budget()), canon_budget(&budget), "C15 Task::get_budget of {cs}");
        let (p, st, tr): (Punctuation, Stamp, Option<Truth>) = match &sentence {
            Sentence::Judgement(_, tr, st) => (Punctuation::Judgement, st.clone(), Some(tr.clone())),
            Sentence::Goal(_, tr, st) => (Punctuation::Goal, st.clone(), Some(tr.clone())),
            Sentence::Question(_, st) => (Punctuation::Question, st.clone(), None),
            Sentence::Quest(_, st) => (Punctuation::Quest, st.clone(), None),
        };
        assert_eq!(sentence.get_punctuation(), &p, "C15 Sentence::get_punctuation of {cs}");
        assert_eq!(task.get_punctuation(), &p, "C15 Task::get_punctuation of {cs}");
        assert_eq!(sentence.get_stamp(), &st, "C15 Sentence::get_stamp of {cs}");
        assert_eq!(task.get_stamp(), &st, "C15 Task::get_stamp of {cs}");
        assert_eq!(GetTruth::get_truth(&sentence).map(canon_truth), tr.as_ref().map(canon_truth), "C15 Sentence::get_truth of {cs}");
        assert_eq!(GetTruth::get_truth(&task).map(canon_truth), tr.as_ref().map(canon_truth), "C15 Task::get_truth of {cs}");
        // from_punctuation vs the specific constructors
        let rebuilt = Sentence::from_punctuation(term.clone(), p.clone(), st.clone(), tr.clone().unwrap_or(Truth::new_double(0.5, 0.5)));
        assert_eq!(canon_sentence(&rebuilt), cs, "C15 Sentence::from_punctuation rebuilds {cs}");
        let rebuilt2 = match p {
            Punctuation::Judgement => Sentence::new_judgement(term.clone(), tr.clone().unwrap(), st.clone()),
            Punctuation::Goal => Sentence::new_goal(term.clone(), tr.clone().unwrap(), st.clone()),
            Punctuation::Question => Sentence::new_question(term.clone(), st.clone()),
            Punctuation::Quest => Sentence::new_quest(term.clone(), st.clone()),
        };
        assert_eq!(canon_sentence(&rebuilt2), cs, "C15 specific sentence constructor rebuilds {cs}");
        // casts
        let cast = sentence.clone().cast_to_task();
        assert_eq!(canon_task(&cast), format!("TASK[B() {cs}]"), "C15 cast_to_task of {cs}");
        let back = cast.clone().try_cast_to_sentence();
        assert_eq!(back.as_ref().ok().map(canon_sentence), Some(cs.clone()), "C15 try_cast_to_sentence(cast_to_task(s)) for {cs}");
        assert!(back.ok().as_ref() == Some(&sentence), "C15 cast round trip == for {cs}");
        let r = task.clone().try_cast_to_sentence();
        if matches!(budget, Budget::Empty) {
            assert_eq!(r.as_ref().ok().map(canon_sentence), Some(cs.clone()), "C15 empty-budget task converts to its sentence {cs}");
        } else {
            assert_eq!(r.as_ref().err().map(canon_task), Some(canon_task(&task)), "C15 task with budget {budget:?} is handed back unchanged");
        }
        // wrappers
        let nt = Narsese::from_term(term.clone());
        let ns = Narsese::from_sentence(sentence.clone());
        let nk = Narsese::from_task(task.clone());
        assert!(matches!(nt, NarseseValue::Term(_)) && matches!(ns, NarseseValue::Sentence(_)) && matches!(nk, NarseseValue::Task(_)), "C15 from_* variants");
        assert_eq!((nt.is_term(), nt.is_sentence(), nt.is_task()), (true, false, false), "C15 is_* of a term value");
        assert_eq!((ns.is_term(), ns.is_sentence(), ns.is_task()), (false, true, false), "C15 is_* of a sentence value");
        assert_eq!((nk.is_term(), nk.is_sentence(), nk.is_task()), (false, false, true), "C15 is_* of a task value");
        assert_eq!(nt.clone().try_into_term().ok().as_ref().map(canon), Some(canon(&term)), "C15 try_into_term(from_term)");
        assert!(nt.clone().try_into_sentence().is_err() && nt.clone().try_into_task().is_err(), "C15 term value: other accessors fail");
        assert_eq!(ns.clone().try_into_sentence().ok().as_ref().map(canon_sentence), Some(cs.clone()), "C15 try_into_sentence(from_sentence)");
        assert!(ns.clone().try_into_term().is_err() && ns.clone().try_into_task().is_err(), "C15 sentence value: other accessors fail");
        assert_eq!(nk.clone().try_into_task().ok().as_ref().map(canon_task), Some(canon_task(&task)), "C15 try_into_task(from_task)");
        assert!(nk.clone().try_into_term().is_err() && nk.clone().try_into_sentence().is_err(), "C15 task value: other accessors fail");
        assert!(!nt.clone().try_into_task().unwrap_err().to_string().is_empty(), "C15 mismatch error text");
        // TryFrom
        assert_eq!(Term::try_from(nt.clone()).ok().as_ref().map(canon), Some(canon(&term)), "C15 Term::try_from(term value)");
        assert!(Term::try_from(ns.clone()).is_err() && Term::try_from(nk.clone()).is_err(), "C15 Term::try_from(other)");
        assert_eq!(Sentence::try_from(ns.clone()).ok().as_ref().map(canon_sentence), Some(cs.clone()), "C15 Sentence::try_from");
        assert!(Sentence::try_from(nt.clone()).is_err() && Sentence::try_from(nk.clone()).is_err(), "C15 Sentence::try_from(other)");
        assert_eq!(Task::try_from(nk.clone()).ok().as_ref().map(canon_task), Some(canon_task(&task)), "C15 Task::try_from");
        assert!(Task::try_from(nt.clone()).is_err() && Task::try_from(ns.clone()).is_err(), "C15 Task::try_from(other)");
        // task-compatible
        assert!(nt.clone().try_into_task_compatible().is_err(), "C15 try_into_task_compatible(term)");
        assert_eq!(ns.clone().try_into_task_compatible().ok().as_ref().map(canon_task), Some(canon_task(&cast)), "C15 try_into_task_compatible(sentence) = cast_to_task");
        assert_eq!(nk.clone().try_into_task_compatible().ok().as_ref().map(canon_task), Some(canon_task(&task)), "C15 try_into_task_compatible(task)");
        // value-level cast
        assert_eq!(nt.clone().try_cast_to_sentence().err().as_ref().map(canon_narsese), Some(canon_narsese(&nt)), "C15 value cast of a term fails with itself");
        assert_eq!(ns.clone().try_cast_to_sentence().ok().as_ref().map(canon_narsese), Some(canon_narsese(&ns)), "C15 value cast of a sentence");
        let r = nk.clone().try_cast_to_sentence();
        if matches!(budget, Budget::Empty) {
            assert_eq!(r.ok().as_ref().map(canon_narsese), Some(canon_narsese(&ns)), "C15 value cast of an empty-budget task");
        } else {
            assert_eq!(r.err().as_ref().map(canon_narsese), Some(canon_narsese(&nk)), "C15 value cast of a budgeted task");
        }
        // inner term of the value
        for n in [&nt, &ns, &nk] {
            assert_eq!(canon(n.get_term()), canon(&term), "C15 NarseseValue::get_term");
        }
        // kinds through text, both parsers; a cast sentence prints with empty budget brackets
        for f in FORMATS {
            for v in [&nt, &ns, &nk, &Narsese::from_task(cast.clone())] {
                let s = ef(f).format_narsese(v);
                let r = enum_parse(f, &s);
                assert_eq!(r.as_ref().ok().map(kind_of), Some(kind_of(v)), "C15 {f:?} kind of enum parse of {s:?}");
                let l = lex_parse(f, &s);
                assert_eq!(l.as_ref().ok().map(kind_of), Some(kind_of(v)), "C15 {f:?} kind of lexical parse of {s:?}");
                let lfolded = lex_pipeline(f, &s);
                assert_eq!(lfolded.as_ref().ok().map(kind_of), Some(kind_of(v)), "C15 {f:?} kind of folded lexical parse of {s:?}");
            }
            let s = ef(f).format_task(&cast);
            let v = vocab(f);
            assert!(s.starts_with(&format!("{}{}", v.budget_br.0, v.budget_br.1)), "C15 {f:?} cast task text {s:?} shows the empty budget");
            assert_eq!(canon_result(&enum_parse(f, &s)), format!("task:TASK[B() {cs}]"), "C15 {f:?} cast task text {s:?} parses to a task");
            assert_ne!(s, ef(f).format_sentence(&sentence), "C15 {f:?} task text differs from sentence text");
        }
    }
    // kind by content, both parsers (ASCII)
    for (s, kind) in [
        ("a", "term"),
        ("$0.5$ a", "term"),
        ("a.", "sentence"),
        ("a. :|:", "sentence"),
        ("a. %1%", "sentence"),
        ("a? :|:", "sentence"),
        ("$$ a.", "task"),
        ("$0.5$ a.", "task"),
        ("$0.5;0.5;0.5$ a@ :/:", "task"),
        ("$$ $x.", "task"),
        ("$x.", "sentence"),
        ("$x", "term"),
        ("?x?", "sentence"),
    ] {
        assert_eq!(enum_parse(F::Ascii, s).as_ref().ok().map(kind_of), Some(kind), "C15 ASCII enum kind of {s:?}");
        assert_eq!(lex_parse(F::Ascii, s).as_ref().ok().map(kind_of), Some(kind), "C15 ASCII lexical kind of {s:?}");
    }
    // the partial result type
    type Opts = NarseseOptions<Budget, Term, Punctuation, Stamp, Truth>;
    for (s, flags) in [
        ("$0.5$ a. :|: %1%", [true, true, true, true, true]),
        ("a. %1%", [false, true, true, false, true]),
        ("a", [false, true, false, false, false]),
        ("$0.5$", [true, false, false, false, false]),
        ("%1%", [false, false, false, false, true]),
        ("$0.5$ a", [true, true, false, false, false]),
        ("", [false, false, false, false, false]),
    ] {
        let r = E_ASCII.parse::<Opts>(s);
        let mut o = match r {
            Ok(o) => o,
            Err(e) => panic!("C15 partial parse of {s:?} failed: {e}"),
        };
        let got = [o.budget.is_some(), o.term.is_some(), o.punctuation.is_some(), o.stamp.is_some(), o.truth.is_some()];
        assert_eq!(got, flags, "C15 partial parse of {s:?}");
        assert_eq!(o.has_sentence(), flags[1] && flags[2], "C15 has_sentence for {s:?}");
        assert_eq!(o.has_task(), flags[0] && flags[1] && flags[2], "C15 has_task for {s:?}");
        let mut o2 = o.clone();
        let mut o3 = o.clone();
        assert_eq!(o2.take_sentence().is_some(), flags[1] && flags[2], "C15 take_sentence for {s:?}");
        if flags[1] && flags[2] {
            assert!(o2.term.is_none() && o2.punctuation.is_none() && o2.stamp.is_none() && o2.truth.is_none(), "C15 take_sentence empties the slots for {s:?}");
            assert_eq!(o2.budget.is_some(), flags[0], "C15 take_sentence leaves the budget for {s:?}");
        }
        let taken = o3.take_task();
        assert_eq!(taken.is_some(), flags[0] && flags[1] && flags[2], "C15 take_task for {s:?}");
        if let Some((b, t, p, st, tr)) = taken {
            assert_eq!(canon_budget(&b), "B(0.5)", "C15 take_task budget for {s:?}");
            assert_eq!(canon(&t), "W(\"a\")", "C15 take_task term for {s:?}");
            assert_eq!(p, Punctuation::Judgement, "C15 take_task punctuation for {s:?}");
            assert_eq!(st, Some(Stamp::Present), "C15 take_task stamp for {s:?}");
            assert_eq!(tr.as_ref().map(canon_truth), Some("T(1.0)".to_string()), "C15 take_task truth for {s:?}");
            assert!(o3.budget.is_none() && o3.term.is_none() && o3.punctuation.is_none() && o3.stamp.is_none() && o3.truth.is_none(), "C15 take_task empties everything");
        }
        let all = o.take();
        assert_eq!(
            [all.budget.is_some(), all.term.is_some(), all.punctuation.is_some(), all.stamp.is_some(), all.truth.is_some()],
            flags,
            "C15 take() returns everything for {s:?}"
        );
        assert!(o.budget.is_none() && o.term.is_none() && o.punctuation.is_none() && o.stamp.is_none() && o.truth.is_none(), "C15 take() empties the value for {s:?}");
        assert!(!o.has_sentence() && !o.has_task(), "C15 empty options have nothing");
    }
    let mut o: Opts = NarseseOptions::new();
    assert!(o.take_budget().is_none() && o.take_term().is_none() && o.take_punctuation().is_none() && o.take_stamp().is_none() && o.take_truth().is_none(), "C15 fresh options are empty");
    o.budget = Some(Budget::new_single(0.5));
    o.term = Some(Term::new_word("w"));
    o.punctuation = Some(Punctuation::Goal);
    o.stamp = Some(Stamp::Past);
    o.truth = Some(Truth::new_single(1.0));
    assert!(o.has_sentence() && o.has_task(), "C15 full options");
    assert_eq!(o.take_budget().as_ref().map(canon_budget), Some("B(0.5)".into()), "C15 take_budget");
    assert!(o.has_sentence() && !o.has_task(), "C15 options without budget");
    assert_eq!(o.take_stamp(), Some(Stamp::Past), "C15 take_stamp");
    assert_eq!(o.take_truth().as_ref().map(canon_truth), Some("T(1.0)".into()), "C15 take_truth");
    assert_eq!(o.take_punctuation(), Some(Punctuation::Goal), "C15 take_punctuation");
    assert!(!o.has_sentence(), "C15 options without punctuation");
    assert_eq!(o.take_term().as_ref().map(canon), Some("W(\"w\")".into()), "C15 take_term");
    // lexical side
    for f in FORMATS {
        for i in 0..80 {
            let x = gen_lx_narsese(&mut rng, f, false, false);
            let (term, sentence): (lx::Term, Option<lx::Sentence>) = match &x {
                NarseseValue::Term(t) => (t.clone(), None),
                NarseseValue::Sentence(s) => (s.term.clone(), Some(s.clone())),
                NarseseValue::Task(t) => (t.sentence.term.clone(), Some(t.sentence.clone())),
            };
            assert_eq!(x.get_term(), &term, "C15 lexical NarseseValue::get_term");
            let s_text = lf(f).format_narsese(&x);
            assert_eq!(lex_parse(f, &s_text).as_ref().ok().map(kind_of), Some(kind_of(&x)), "C15 {f:?} lexical kind of {s_text:?}");
            assert_eq!(enum_parse(f, &s_text).as_ref().ok().map(kind_of), Some(kind_of(&x)), "C15 {f:?} enum kind of lexical text {s_text:?}");
            if let Some(s) = sentence {
                assert_eq!(s.get_term(), &term, "C15 lexical Sentence::get_term");
                assert_eq!(s.get_punctuation(), &s.punctuation, "C15 lexical get_punctuation");
                assert_eq!(s.get_stamp(), &s.stamp, "C15 lexical get_stamp");
                assert_eq!(GetTruth::get_truth(&s), Some(&s.truth), "C15 lexical get_truth");
                let cast = s.clone().cast_to_task();
                assert_eq!(cast, lx::Task { budget: vec![], sentence: s.clone() }, "C15 lexical cast_to_task");
                assert_eq!(cast.get_sentence(), &s, "C15 lexical Task::get_sentence");
                assert_eq!(cast.clone().try_cast_to_sentence(), Ok(s.clone()), "C15 lexical cast round trip");
                let budget: Vec<String> = if i % 2 == 0 { vec!["0.5".to_string()] } else { vec!["1".to_string(), "0".to_string()] };
                let task = lx::Task::new(budget.clone(), s.term.clone(), s.punctuation.clone(), s.stamp.clone(), s.truth.clone());
                assert_eq!(task.get_budget(), &budget, "C15 lexical get_budget");
                assert_eq!(task.get_term(), &term, "C15 lexical Task::get_term");
                assert_eq!(task.get_punctuation(), &s.punctuation, "C15 lexical Task::get_punctuation");
                assert_eq!(task.get_stamp(), &s.stamp, "C15 lexical Task::get_stamp");
                assert_eq!(GetTruth::get_truth(&task), Some(&s.truth), "C15 lexical Task::get_truth");
                assert_eq!(task.clone().try_cast_to_sentence(), Err(task.clone()), "C15 lexical budgeted task is handed back");
                let ns = lx::Narsese::from_sentence(s.clone());
                let nk = lx::Narsese::from_task(task.clone());
                let nc = lx::Narsese::from_task(cast.clone());
                assert_eq!(ns.clone().try_into_task_compatible().ok(), Some(cast.clone()), "C15 lexical try_into_task_compatible(sentence)");
                assert_eq!(nk.clone().try_into_task_compatible().ok(), Some(task.clone()), "C15 lexical try_into_task_compatible(task)");
                assert_eq!(nk.clone().try_cast_to_sentence(), Err(nk.clone()), "C15 lexical value cast of budgeted task");
                assert_eq!(nc.clone().try_cast_to_sentence(), Ok(ns.clone()), "C15 lexical value cast of empty-budget task");
                assert_eq!(ns.clone().try_cast_to_sentence(), Ok(ns.clone()), "C15 lexical value cast of sentence");
                assert!(ns.is_sentence() && !ns.is_task() && !ns.is_term(), "C15 lexical is_*");
                assert_eq!(ns.clone().try_into_sentence().ok(), Some(s.clone()), "C15 lexical try_into_sentence");
                assert!(ns.clone().try_into_task().is_err() && ns.clone().try_into_term().is_err(), "C15 lexical mismatching accessors");
                assert_eq!(nk.clone().try_into_task().ok(), Some(task.clone()), "C15 lexical try_into_task");
                assert!(nk.clone().try_into_sentence().is_err() && nk.clone().try_into_term().is_err(), "C15 lexical mismatching accessors");
                // the cast prints its empty budget and re-parses as a task
                let text = lf(f).format_task(&cast);
                assert_eq!(lex_parse(f, &text).ok(), Some(nc.clone()), "C15 {f:?} lexical cast task text {text:?} parses to the task");
                assert_eq!(enum_parse(f, &text).as_ref().ok().map(kind_of), Some("task"), "C15 {f:?} lexical cast task text {text:?} is a task for the enum parser");
            } else {
                let nt = lx::Narsese::from_term(term.clone());
                assert!(nt.is_term(), "C15 lexical is_term");
                assert_eq!(nt.clone().try_into_term().ok(), Some(term.clone()), "C15 lexical try_into_term");
                assert!(nt.clone().try_into_task_compatible().is_err(), "C15 lexical try_into_task_compatible(term)");
                assert_eq!(nt.clone().try_cast_to_sentence(), Err(nt.clone()), "C15 lexical value cast of term");
            }
        }
    }
}

// ---------------------------------------------------------------------------------------------
// C16: reference Typst renderer
// ---------------------------------------------------------------------------------------------

fn ty_post(s: &str) -> String {
    let mut out = String::new();
    let mut last_ws = false;
    for c in s.trim().chars() {
        if c.is_whitespace() {
            if !last_ws {
                out.push(c);
            }
            last_ws = true;
        } else {
            out.push(c);
            last_ws = false;
        }
    }
    out
}
const TY_ATOM_PREFIX: [&str; 7] = [
    "",
    " diamond.small ",
    r" \$ #h(-0.05em) ",
    r" \# #h(-0.05em) ",
    " ? #h(-0.05em) ",
    " + #h(-0.05em) ",
    " arrow.t.double #h(-0.05em) ",
];
/// ids 9..=20
const TY_CONNECTER: [&str; 12] = [
    " sect ", " union ", " minus ", " minus.circle ", " times ", r" \/ ", r" \\ ", " and ", " or ", " not ", " , ", " ; ",
];
/// ids 21..=29
const TY_COPULA: [&str; 9] = [
    " arrow.r ",
    " arrow.l.r ",
    " arrow.r.double ",
    " arrow.l.r.double ",
    r" space\/#h(-0.6em)arrow.r.double ",
    r" space\|#h(-0.6em)arrow.r.double ",
    r" space\\#h(-0.6em)arrow.r.double ",
    r" space\/#h(-0.6em)arrow.l.r.double ",
    r" space\|#h(-0.6em)arrow.l.r.double ",
];
fn ctor_of(t: &Term) -> u8 {
    match t {
        Term::Word(..) => WORD,
        Term::Placeholder => PLACEHOLDER,
        Term::VariableIndependent(..) => IVAR,
        Term::VariableDependent(..) => DVAR,
        Term::VariableQuery(..) => QVAR,
        Term::Interval(..) => INTERVAL,
        Term::Operator(..) => OPERATOR,
        Term::SetExtension(..) => SET_EXT,
        Term::SetIntension(..) => SET_INT,
        Term::IntersectionExtension(..) => INTER_EXT,
        Term::IntersectionIntension(..) => INTER_INT,
        Term::DifferenceExtension(..) => DIFF_EXT,
        Term::DifferenceIntension(..) => DIFF_INT,
        Term::Product(..) => PRODUCT,
        Term::ImageExtension(..) => IMAGE_EXT,
        Term::ImageIntension(..) => IMAGE_INT,
        Term::Conjunction(..) => CONJ,
        Term::Disjunction(..) => DISJ,
        Term::Negation(..) => NEG,
        Term::ConjunctionSequential(..) => SEQ,
        Term::ConjunctionParallel(..) => PAR,
        Term::Inheritance(..) => INH,
        Term::Similarity(..) => SIM,
        Term::Implication(..) => IMPL,
        Term::Equivalence(..) => EQUIV,
        Term::ImplicationPredictive(..) => IMPL_PRED,
        Term::ImplicationConcurrent(..) => IMPL_CONC,
        Term::ImplicationRetrospective(..) => IMPL_RETRO,
        Term::EquivalencePredictive(..) => EQUIV_PRED,
        Term::EquivalenceConcurrent(..) => EQUIV_CONC,
    }
}
/// raw (not yet whitespace-normalised) Typst text of a term; components in the term's own iteration order
fn ty_term_raw(t: &Term) -> String {
    let c = ctor_of(t);
    let kid = |k: &Term| ty_post(&ty_term_raw(k));
    let kids_full: Vec<Option<&Term>> = match t {
        Term::SetExtension(s)
        | Term::SetIntension(s)
        | Term::IntersectionExtension(s)
        | Term::IntersectionIntension(s)
        | Term::Conjunction(s)
        | Term::Disjunction(s)
        | Term::ConjunctionParallel(s) => s.iter().map(Some).collect(),
        Term::Product(v) | Term::ConjunctionSequential(v) => v.iter().map(Some).collect(),
        Term::ImageExtension(i, v) | Term::ImageIntension(i, v) => {
            let mut r: Vec<Option<&Term>> = v.iter().map(Some).collect();
            r.insert((*i).min(r.len()), None);
            r
        }
        Term::Negation(a) => vec![Some(&**a)],
        Term::DifferenceExtension(a, b)
        | Term::DifferenceIntension(a, b)
        | Term::Inheritance(a, b)
        | Term::Similarity(a, b)
        | Term::Implication(a, b)
        | Term::Equivalence(a, b)
        | Term::ImplicationPredictive(a, b)
        | Term::ImplicationConcurrent(a, b)
        | Term::ImplicationRetrospective(a, b)
        | Term::EquivalencePredictive(a, b)
        | Term::EquivalenceConcurrent(a, b) => vec![Some(&**a), Some(&**b)],
        _ => vec![],
    };
    let strings: Vec<String> = kids_full
        .iter()
        .map(|k| match k {
            Some(k) => kid(k),
            None => "diamond.small \"\"".to_string(),
        })
        .collect();
    if is_atom_c(c) {
        let name = match t {
            Term::Word(n)
            | Term::VariableIndependent(n)
            | Term::VariableDependent(n)
            | Term::VariableQuery(n)
            | Term::Operator(n) => n.clone(),
            Term::Interval(i) => i.to_string(),
            _ => String::new(),
        };
        return format!("{}{:?}", TY_ATOM_PREFIX[c as usize], name);
    }
    if is_statement_c(c) {
        return format!(" lr(angle.l {}{}{} angle.r) ", strings[0], TY_COPULA[(c - INH) as usize], strings[1]);
    }
    let (l, r, connecter) = match c {
        SET_EXT => (" lr({ ", " }) ", ""),
        SET_INT => (" lr([ ", " ]) ", ""),
        _ => (" lr(( ", " )) ", TY_CONNECTER[(c - INTER_EXT) as usize]),
    };
    let body = if connecter.is_empty() {
        strings.join(" space ")
    } else if strings.len() == 2 {
        strings.join(connecter)
    } else {
        format!("{connecter} space {}", strings.join(" space "))
    };
    format!("{l}{body}{r}")
}
fn ty_floats_raw(l: &str, r: &str, sep: &str, fs: &[f64]) -> String {
    let v: Vec<String> = fs.iter().map(|f| f.to_string()).collect();
    format!("{l}{}{r}", v.join(sep))
}
fn ty_truth_raw(t: &Truth) -> String {
    match t {
        Truth::Empty => String::new(),
        _ => ty_floats_raw(" lr(angle.l ", " angle.r) ", ",", &truth_floats(t)),
    }
}
fn ty_budget_raw(b: &Budget) -> String {
    ty_floats_raw(r" lr(\$ ", r" \$) ", "\";\"", &budget_floats(b))
}
fn ty_stamp_raw(s: &Stamp) -> String {
    match s {
        Stamp::Eternal => String::new(),
        Stamp::Past => r" \/#h(-0.6em)arrow.r.double ".to_string(),
        Stamp::Present => r" \|#h(-0.6em)arrow.r.double ".to_string(),
        Stamp::Future => r" \\#h(-0.6em)arrow.r.double ".to_string(),
        Stamp::Fixed(t) => format!(" t= {t}"),
    }
}
fn ty_punct_raw(p: &Punctuation) -> &'static str {
    match p {
        Punctuation::Judgement => " . ",
        Punctuation::Goal => " ! ",
        Punctuation::Question => " ? ",
        Punctuation::Quest => " quest.inv ",
    }
}
fn ty_narsese(v: &Narsese) -> String {
    let parts = |s: &Sentence| -> (String, &'static str, String, String) {
        let term = ty_term_raw(s.get_term());
        let p = ty_punct_raw(s.get_punctuation());
        let st = ty_stamp_raw(s.get_stamp());
        let tr = match s {
            Sentence::Judgement(_, tr, _) | Sentence::Goal(_, tr, _) => ty_truth_raw(tr),
            _ => String::new(),
        };
        (term, p, st, tr)
    };
    match v {
        NarseseValue::Term(t) => ty_post(&ty_term_raw(t)),
        NarseseValue::Sentence(s) => {
            let (term, p, st, tr) = parts(s);
            ty_post(&format!("{term}{p}{st} space {tr}"))
        }
        NarseseValue::Task(t) => {
            let (term, p, st, tr) = parts(&t.0);
            ty_post(&format!("{} space {term}{p} space {st} space {tr}", ty_budget_raw(&t.1)))
        }
    }
}
fn check_typst_shape(s: &str, what: &str) {
    assert_eq!(s, s.trim(), "C16 Typst text of {what} is trimmed: {s:?}");
    let cs: Vec<char> = s.chars().collect();
    for w in cs.windows(2) {
        assert!(!(w[0].is_whitespace() && w[1].is_whitespace()), "C16 Typst text of {what} has doubled whitespace: {s:?}");
    }
}

#[test]
fn oracle_c16() {
    let mut rng = Rng::new(0xC16);
    let ty = FormatterTypst;
    // (1) exact text, shape, all constructors and items
    let mut values: Vec<Narsese> = vec![];
    for _ in 0..2 {
        for d in gen_all_ctors(&mut rng, 2, &CFG_STD) {
            let t = build_shuffled(&d, &mut rng);
            values.push(Narsese::from_term(t.clone()));
            values.push(gen_narsese_of(&mut rng, &d));
        }
    }
    values.extend(all_items_of(&build_plain(&D::node(INH, vec![D::atom(OPERATOR, "op"), D::interval(7)]))));
    for _ in 0..250 {
        let d = gen_d(&mut rng, 4, &CFG_STD);
        values.push(gen_narsese_of(&mut rng, &d));
    }
    // compounds of every size 1..4 (the layout depends on the arity)
    for c in [INTER_EXT, INTER_INT, PRODUCT, CONJ, DISJ, SEQ, PAR, SET_EXT, SET_INT] {
        for n in 1..=4 {
            let kids = (0..n).map(|i| D::word(&format!("k{i}"))).collect();
            values.push(Narsese::from_term(build_plain(&D::node(c, kids))));
        }
    }
    // odd names are quoted
    for name in ["a b", "q\"uote", "back\\slash", "", " ", "tab\t"] {
        values.push(Narsese::from_term(Term::new_word(name)));
        values.push(Narsese::from_term(Term::new_set_extension(vec![Term::new_operator(name)])));
    }
    for v in values.iter() {
        let what = canon_narsese(v);
        let r = quiet(|| ty.format(v));
        let s = match r {
            Ok(s) => s,
            Err(p) => panic!("C16 Typst rendering of {what} panicked: {p}"),
        };
        check_typst_shape(&s, &what);
        assert_eq!(s, ty_narsese(v), "C16 Typst text of {what}");
        // the specific impls agree with the value-level one
        let s2 = match v {
            NarseseValue::Term(t) => ty.format(t),
            NarseseValue::Sentence(x) => ty.format(x),
            NarseseValue::Task(x) => ty.format(x),
        };
        assert_eq!(s2, s, "C16 Typst text through the specific impl of {what}");
        // rendering twice is stable
        assert_eq!(ty.format(v), s, "C16 Typst rendering is repeatable for {what}");
    }
    // (2) items alone
    for p in PUNCTS.iter() {
        let s = ty.format(p);
        check_typst_shape(&s, &format!("{p:?}"));
        assert_eq!(s, ty_post(ty_punct_raw(p)), "C16 Typst punctuation {p:?}");
    }
    let stamps = [Stamp::Eternal, Stamp::Past, Stamp::Present, Stamp::Future, Stamp::Fixed(0), Stamp::Fixed(-1), Stamp::Fixed(1), Stamp::Fixed(isize::MIN), Stamp::Fixed(isize::MAX)];
    for st in stamps.iter() {
        let s = ty.format(st);
        check_typst_shape(&s, &format!("{st:?}"));
        assert_eq!(s, ty_post(&ty_stamp_raw(st)), "C16 Typst stamp {st:?}");
    }
    let mut truths = vec![Truth::new_empty()];
    let mut budgets = vec![Budget::new_empty()];
    for &a in FLOAT_POOL.iter().take(6) {
        truths.push(Truth::new_single(a));
        budgets.push(Budget::new_single(a));
        for &b in FLOAT_POOL.iter().take(4) {
            truths.push(Truth::new_double(a, b));
            budgets.push(Budget::new_double(a, b));
            budgets.push(Budget::new_triple(a, b, 0.125));
            budgets.push(Budget::new_triple(0.125, a, b));
        }
    }
    for t in truths.iter() {
        let s = ty.format(t);
        check_typst_shape(&s, &format!("{t:?}"));
        assert_eq!(s, ty_post(&ty_truth_raw(t)), "C16 Typst truth {t:?}");
    }
    for b in budgets.iter() {
        let s = ty.format(b);
        check_typst_shape(&s, &format!("{b:?}"));
        assert_eq!(s, ty_post(&ty_budget_raw(b)), "C16 Typst budget {b:?}");
    }
    assert_eq!(ty.format(&Truth::new_double(1.0, 0.9)), "lr(angle.l 1,0.9 angle.r)", "C16 Typst truth sample");
    assert_eq!(ty.format(&Budget::new_triple(0.5, 0.75, 0.4)), "lr(\\$ 0.5\";\"0.75\";\"0.4 \\$)", "C16 Typst budget sample");
    assert_eq!(ty.format(&Stamp::Fixed(-1)), "t= -1", "C16 Typst stamp sample");
    assert_eq!(ty.format(&Stamp::Eternal), "", "C16 Typst eternal stamp");
    assert_eq!(ty.format(&Truth::new_empty()), "", "C16 Typst empty truth");
    assert_eq!(
        ty.format(&Term::new_inheritance(Term::new_word("A"), Term::new_word("B"))),
        r#"lr(angle.l "A" arrow.r "B" angle.r)"#,
        "C16 Typst statement sample"
    );
    assert_eq!(
        ty.format(&Term::new_image_extension(1, vec![Term::new_word("A"), Term::new_variable_independent("x")])),
        r#"lr(( \/ space "A" space diamond.small "" space \$ #h(-0.05em) "x" ))"#,
        "C16 Typst image sample"
    );
    // (3) distinct values render differently (values whose unordered compounds have one component,
    //     so that the text does not depend on an iteration order)
    let mut seen: HashMap<String, String> = HashMap::new();
    let mut check_distinct = |text: String, key: String| {
        if let Some(prev) = seen.get(&text) {
            assert_eq!(prev, &key, "C16 two different values render to the same Typst text {text:?}");
        } else {
            seen.insert(text, key);
        }
    };
    for _ in 0..3 {
        for d in gen_all_ctors(&mut rng, 1, &CFG_ORDERED) {
            let t = build_plain(&d);
            check_distinct(ty.format(&t), format!("term:{}", dcanon(&d)));
        }
    }
    for _ in 0..600 {
        let d = gen_d(&mut rng, 3, &GenCfg { small_names: true, max_unordered: 1, loose_placeholder: false });
        let v = gen_narsese_of(&mut rng, &d);
        check_distinct(ty.format(&v), canon_narsese(&v));
    }
    for v in all_items_of(&Term::new_word("a")) {
        check_distinct(ty.format(&v), canon_narsese(&v));
    }
    let mut seen_items: HashMap<String, String> = HashMap::new();
    for (text, key) in truths
        .iter()
        .map(|t| (ty.format(t), canon_truth(t)))
        .chain(budgets.iter().map(|b| (ty.format(b), canon_budget(b))))
        .chain(stamps.iter().map(|s| (ty.format(s), canon_stamp(s))))
        .chain(PUNCTS.iter().map(|p| (ty.format(p), format!("{p:?}"))))
    {
        if text.is_empty() {
            continue; // the empty truth and the eternal stamp are both invisible
        }
        if let Some(prev) = seen_items.get(&text) {
            assert_eq!(prev, &key, "C16 two different items render to the same Typst text {text:?}");
        }
        seen_items.insert(text, key);
    }
    // equal values render identically up to the order of unordered components
    for _ in 0..100 {
        let d = gen_d(&mut rng, 3, &CFG_STD);
        let (a, b) = (build_shuffled(&d, &mut rng), build_shuffled(&d, &mut rng));
        let sorted = |s: String| {
            let mut v: Vec<char> = s.chars().collect();
            v.sort();
            v
        };
        assert_eq!(sorted(ty.format(&a)), sorted(ty.format(&b)), "C16 equal terms render to the same multiset of characters: {}", dcanon(&d));
    }
}

// ---------------------------------------------------------------------------------------------
// C17
// ---------------------------------------------------------------------------------------------

/// reference: does the string denote an unsigned decimal integer that fits `usize`? (optional leading '+')
fn spec_parse_usize(s: &str) -> Option<usize> {
    let digits = s.strip_prefix('+').unwrap_or(s);
    if digits.is_empty() || !digits.chars().all(|c| c.is_ascii_digit()) {
        return None;
    }
    let mut acc: u128 = 0;
    for c in digits.chars() {
        acc = acc.checked_mul(10)?.checked_add(c as u128 - '0' as u128)?;
        if acc > usize::MAX as u128 {
            return None;
        }
    }
    Some(acc as usize)
}
/// reference model of `set_atom_name`: Some(new description) on success
fn model_set_atom_name(d: &D, name: &str) -> Option<D> {
    match d.c {
        c if is_named_atom(c) => Some(D::atom(c, name)),
        PLACEHOLDER => Some(d.clone()),
        INTERVAL => spec_parse_usize(name).map(D::interval),
        _ => None,
    }
}
/// reference model of `push_components`
fn model_push(d: &D, extra: &[D]) -> Option<D> {
    if is_seq_c(d.c) || is_image_c(d.c) || is_unordered_c(d.c) {
        let mut d2 = d.clone();
        d2.kids.extend(extra.iter().cloned());
        Some(d2)
    } else {
        None
    }
}

#[test]
fn oracle_c17() {
    let mut rng = Rng::new(0xC17);
    let names: Vec<String> = [
        "", "a", "new-name", "with space", "词项", "🌹", "_", "-->", "0", "7", "+7", "007", "+0", "+", "-1", "-0", "1.0", "1e3", " 7", "7 ", "0x10",
        "18446744073709551615", "18446744073709551616", "+18446744073709551615", "99999999999999999999999999999", "++7", "+-7", "٧", "７", "1_000",
    ]
    .iter()
    .map(|s| s.to_string())
    .collect();
    let mut ds: Vec<D> = vec![];
    for _ in 0..3 {
        ds.extend(gen_all_ctors(&mut rng, 2, &CFG_STD));
    }
    for _ in 0..100 {
        ds.push(gen_d(&mut rng, 3, &CFG_STD));
    }
    for d in ds.iter() {
        // set_atom_name with every candidate name
        for name in names.iter() {
            let mut t = build_shuffled(d, &mut rng);
            let before_text = E_ASCII.format_term(&t);
            let r = quiet(|| t.set_atom_name(name).map_err(|e| e.to_string()));
            let r = match r {
                Ok(r) => r,
                Err(p) => panic!("C17 set_atom_name({name:?}) on {} panicked: {p}", dcanon(d)),
            };
            match model_set_atom_name(d, name) {
                Some(d2) => {
                    assert!(r.is_ok(), "C17 set_atom_name({name:?}) on {} must succeed, got {r:?}", dcanon(d));
                    assert_eq!(canon(&t), dcanon(&d2), "C17 state after set_atom_name({name:?}) on {}", dcanon(d));
                    let expected_name = match d2.c {
                        PLACEHOLDER => String::new(),
                        INTERVAL => d2.num.to_string(),
                        _ => name.clone(),
                    };
                    assert_eq!(t.get_atom_name(), Some(expected_name), "C17 get_atom_name after set_atom_name({name:?}) on {}", dcanon(d));
                }
                None => {
                    assert!(r.is_err(), "C17 set_atom_name({name:?}) on {} must fail", dcanon(d));
                    assert!(!r.unwrap_err().is_empty(), "C17 error text of set_atom_name");
                    assert_eq!(canon(&t), dcanon(d), "C17 failed set_atom_name({name:?}) left {} unchanged", dcanon(d));
                    assert_eq!(E_ASCII.format_term(&t), before_text, "C17 failed set_atom_name({name:?}) left the text of {} unchanged", dcanon(d));
                }
            }
        }
        // push_components with lists of length 0..3
        for n in 0..=3usize {
            let extra: Vec<D> = (0..n)
                .map(|i| if i == 1 { d.kids.first().cloned().unwrap_or(D::word("dup")) } else { gen_d(&mut rng, 1, &CFG_STD) })
                .collect();
            let mut t = build_shuffled(d, &mut rng);
            let before_text = E_ASCII.format_term(&t);
            let extra_terms: Vec<Term> = extra.iter().map(|e| build_shuffled(e, &mut rng)).collect();
            let r = quiet(|| t.push_components(extra_terms).map_err(|e| e.to_string()));
            let r = match r {
                Ok(r) => r,
                Err(p) => panic!("C17 push_components on {} panicked: {p}", dcanon(d)),
            };
            match model_push(d, &extra) {
                Some(d2) => {
                    assert!(r.is_ok(), "C17 push_components({n} terms) on {} must succeed, got {r:?}", dcanon(d));
                    assert_eq!(canon(&t), dcanon(&d2), "C17 state after push_components({n} terms) on {}", dcanon(d));
                    if is_seq_c(d.c) || is_image_c(d.c) {
                        let got: Vec<String> = t.get_components().into_iter().map(canon).collect();
                        let expected: Vec<String> = d2.kids.iter().map(dcanon).collect();
                        assert_eq!(got, expected, "C17 appended in order to {}", dcanon(d));
                    }
                    if let Term::ImageExtension(i, _) | Term::ImageIntension(i, _) = &t {
                        assert_eq!(*i, d.num, "C17 push_components keeps the placeholder index of {}", dcanon(d));
                    }
                }
                None => {
                    assert!(r.is_err(), "C17 push_components({n} terms) on {} must fail", dcanon(d));
                    assert!(!r.unwrap_err().is_empty(), "C17 error text of push_components");
                    assert_eq!(canon(&t), dcanon(d), "C17 failed push_components left {} unchanged", dcanon(d));
                    assert_eq!(E_ASCII.format_term(&t), before_text, "C17 failed push_components left the text of {} unchanged", dcanon(d));
                }
            }
        }
    }
    // exact small examples
    let mut t = Term::new_interval(3);
    assert!(t.set_atom_name("+12").is_ok(), "C17 interval accepts +12");
    assert_eq!(canon(&t), "N(12)", "C17 interval value after +12");
    assert!(t.set_atom_name("x").is_err(), "C17 interval rejects x");
    assert_eq!(canon(&t), "N(12)", "C17 interval unchanged after rejected name");
    let mut t = Term::new_product(vec![Term::new_word("a")]);
    assert!(t.push_components(vec![Term::new_word("b"), Term::new_word("a")]).is_ok(), "C17 product push");
    assert_eq!(canon(&t), "PR[W(\"a\"),W(\"b\"),W(\"a\")]", "C17 product after push");
    let mut t = Term::new_set_extension(vec![Term::new_word("a")]);
    assert!(t.push_components(vec![Term::new_word("b"), Term::new_word("a")]).is_ok(), "C17 set push");
    assert_eq!(canon(&t), "SE{W(\"a\"),W(\"b\")}", "C17 set after push (union)");
    assert_eq!(t.get_components().len(), 2, "C17 set size after push (union)");
    let mut t = Term::new_negation(Term::new_word("a"));
    assert!(t.push_components(vec![Term::new_word("b")]).is_err(), "C17 negation push fails");
    assert!(t.push_components(Vec::<Term>::new()).is_err(), "C17 negation push of nothing fails too");
    assert_eq!(canon(&t), "NG[W(\"a\")]", "C17 negation unchanged");
}
