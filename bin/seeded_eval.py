#!/usr/bin/env python3
"""seeded_eval.py <source dir with patch.diff demo.rs meta.json> <seeded id>
Confirms an independently written property-breaking change in a scratch worktree of /repo (suite green with the patch, demo
passes without / fails with it), then applies it to /repo, runs every quick check, undoes it, and stores the result under
/verif/seeded/<id>/ (patch.diff, demo.rs, meta.json incl. which checks fired)."""
import json, os, shutil, subprocess, sys, tempfile
V = os.path.dirname(os.path.dirname(os.path.abspath(__file__)))
REPO = "/repo"


def sh(cmd, cwd=None, env=None, timeout=1800):
    r = subprocess.run(cmd, cwd=cwd, env=env, shell=True, capture_output=True, text=True, timeout=timeout)
    return r.returncode, r.stdout + r.stderr


def main():
    src, sid = sys.argv[1], sys.argv[2]
    meta = json.load(open(os.path.join(src, "meta.json"), encoding="utf-8"))
    patch = os.path.abspath(os.path.join(src, "patch.diff"))
    demo = os.path.abspath(os.path.join(src, "demo.rs"))
    wt = tempfile.mkdtemp(prefix="seedchk-", dir="/tmp")
    os.rmdir(wt)
    rc, out = sh("git -C %s worktree add -q --detach %s HEAD" % (REPO, wt))
    assert rc == 0, out
    conf = {}
    try:
        os.makedirs(os.path.join(wt, "tests"), exist_ok=True)
        shutil.copy(demo, os.path.join(wt, "tests", "demo.rs"))
        rc, out = sh("cargo test --offline --test demo 2>&1 | tail -15", cwd=wt)
        conf["demo_without_patch"] = "pass" if "test result: ok" in out else "FAIL: " + out[-400:]
        rc, out = sh("git apply %s" % patch, cwd=wt)
        conf["patch_applies"] = rc == 0
        os.remove(os.path.join(wt, "tests", "demo.rs"))
        rc, out = sh("cargo test --workspace --no-fail-fast --offline 2>&1 | grep -E '^test result|FAILED|^error' | head", cwd=wt)
        conf["suite_with_patch"] = out.strip().replace("\n", " | ")
        suite_ok = "157 passed; 0 failed" in out and "FAILED" not in out and "error" not in out
        shutil.copy(demo, os.path.join(wt, "tests", "demo.rs"))
        rc, out = sh("cargo test --offline --test demo 2>&1 | tail -25", cwd=wt)
        conf["demo_with_patch"] = "fail" if ("FAILED" in out or "panicked" in out or "error: test failed" in out) else "PASSES (not a valid seed): " + out[-300:]
        conf["confirmed"] = bool(conf["patch_applies"] and suite_ok and conf["demo_without_patch"] == "pass" and conf["demo_with_patch"] == "fail")
    finally:
        sh("git -C %s worktree remove --force %s" % (REPO, wt))
        shutil.rmtree(wt, ignore_errors=True)
    fired = {}
    COPY = os.environ.get("SEEDED_EVAL_COPY") == "1"
    if COPY:
        # parallel-safe mode: the checks run against a scratch COPY of /repo with the patch applied (VERIF_REPO), as the battery does
        scratch = tempfile.mkdtemp(prefix="seedrun-", dir="/tmp")
        try:
            repo = os.path.join(scratch, "repo")
            rc, out = sh("rsync -a --exclude target --exclude .git %s/ %s/ && cd %s && git apply %s" % (REPO, repo, repo, patch))
            assert rc == 0, out
            env = dict(os.environ, VERIF_REPO=repo, VERIF_CACHE_DIR=os.path.join(scratch, "cache"), VERIF_EVIDENCE_DIR=os.path.join(scratch, "ev"),
                       VERIF_REPLAY_DIR=os.path.join(scratch, "rp"), VERIF_TIER="quick", VERIF_NO_BATTERY="1")
            for i in range(1, 18):
                pid = "C%02d" % i
                rc, out = sh("%s/checks/check %s --tier quick" % (V, pid), cwd=V, env=env)
                keys = [l.strip()[len("violated: "):] for l in out.splitlines() if l.strip().startswith("violated:")]
                if rc != 0:
                    fired[pid] = {"exit": rc, "violations": [k[:300] for k in keys][:6] or [out.strip()[-300:]]}
        finally:
            shutil.rmtree(scratch, ignore_errors=True)
    else:
        # run the checks against /repo with the patch applied, then undo
        rc, out = sh("git -C %s status --porcelain -- src" % REPO)
        assert not out.strip(), "repo not clean: " + out
        rc, out = sh("git -C %s apply %s" % (REPO, patch))
        assert rc == 0, out
        try:
            env = dict(os.environ, VERIF_EVIDENCE_DIR="/tmp/seed-ev", VERIF_REPLAY_DIR="/tmp/seed-rp", VERIF_TIER="quick")
            for i in range(1, 18):
                pid = "C%02d" % i
                rc, out = sh("%s/checks/check %s --tier quick" % (V, pid), cwd=V, env=env)
                keys = [l.strip()[len("violated: "):] for l in out.splitlines() if l.strip().startswith("violated:")]
                if rc != 0:
                    fired[pid] = {"exit": rc, "violations": [k[:300] for k in keys][:6] or [out.strip()[-300:]]}
        finally:
            sh("git -C %s checkout -- ." % REPO)
        rc, out = sh("git -C %s status --porcelain -- src" % REPO)
        assert not out.strip(), "repo not restored: " + out
    dst = os.path.join(V, "seeded", sid)
    os.makedirs(dst, exist_ok=True)
    prev = None
    if os.path.abspath(src) != os.path.abspath(dst):
        shutil.copy(patch, os.path.join(dst, "patch.diff"))
        shutil.copy(demo, os.path.join(dst, "demo.rs"))
    else:
        prev = meta
    prop = meta.get("property") or meta.get("breaks_property")
    meta_out = {
        "id": sid, "breaks_property": prop, "author": "independent sub-agent (saw only the property text and a scratch worktree)",
        "summary": meta.get("summary"), "files": meta.get("files"), "needs_to_manifest": meta.get("needs_to_manifest"),
        "why_tests_miss_it": meta.get("why_tests_miss_it"),
        "confirmation": conf,
        "what_i_ran": ["scratch worktree of /repo HEAD: cargo test --test demo (clean) ; git apply patch.diff ; cargo test --workspace --no-fail-fast --offline ; cargo test --test demo",
                       ("scratch copy of /repo with patch.diff applied (VERIF_REPO) ; checks/check C01..C17 --tier quick" if COPY else
                        "git -C /repo apply patch.diff ; checks/check C01..C17 --tier quick ; git -C /repo checkout -- .")],
        "checks_fired": fired,
        "detected_by_target_property_check": prop in fired and fired[prop]["exit"] == 1,
        "detected_by_any_check": any(v["exit"] == 1 for v in fired.values()),
    }
    if prev is not None:
        meta_out["first_evaluation"] = prev.get("first_evaluation") or {
            "detected_by_target_property_check": prev.get("detected_by_target_property_check"),
            "detected_by_any_check": prev.get("detected_by_any_check"),
            "checks_fired": sorted(prev.get("checks_fired", {}))}
    if len(sys.argv) > 3:
        meta_out["strengthening"] = sys.argv[3]
    json.dump(meta_out, open(os.path.join(dst, "meta.json"), "w", encoding="utf-8"), ensure_ascii=False, indent=1)
    print(sid, "confirmed=%s" % conf["confirmed"], "target=%s" % meta_out["detected_by_target_property_check"], "any=%s" % meta_out["detected_by_any_check"])
    for p, v in fired.items():
        print("   ", p, v["exit"], v["violations"][:2])
    if not conf["confirmed"]:
        print("   confirmation details:", conf)


if __name__ == "__main__":
    main()
