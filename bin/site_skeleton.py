#!/usr/bin/env python3
"""Prints every non-Add panic site reachable from the parser/fold/formatter entry points with operand expressions and
forced guards (input for reviewing checks/tables/panic_sites.py)."""
import sys, json, os
V = os.path.dirname(os.path.dirname(os.path.abspath(__file__)))
for d in ("lib", "rules", "props"):
    sys.path.insert(0, os.path.join(V, "checks", d))
import facts, mir, panics, guards, pscope
f = facts.load()
cg = mir.callgraph(f)
R = set()
for name in pscope.SCOPES:
    R |= cg.reachable(pscope.roots(f, name))
inv = panics.inventory(f, R)
for k, p, bi, t in panics.site_keys(f, inv):
    if "Overflow(Add)" in k:
        continue
    s = guards.Sym(f.mir[p])
    print(json.dumps({"key": k, "line": t["line"], "ops": guards.site_operands(s, t), "guards": ["%s = %s" % (e, v) for e, v in s.live_guards(bi)]}, ensure_ascii=False))
