#!/usr/bin/env python3
"""Regenerates /verif/MANIFEST.json from the claims table below (keeps it schema-valid)."""
import json, os, sys
V = os.path.dirname(os.path.dirname(os.path.abspath(__file__)))
props = [json.loads(l) for l in open(os.path.join(V, "properties.jsonl"), encoding="utf-8")]

CLAIMS = {
 "C03": dict(
   level="other", design="DESIGN.md §4 C03",
   technique="static analysis: HIR table extraction + symbolic evaluation of keyword->constructor chains (custom rustc_private driver)",
   text="Decides the vocabulary clause of C03 exactly (the six format tables agree cell by cell, ~170 obligations) and the "
        "keyword->constructor agreement of enum parser and fold for all 34 term keyword fields incl. derived copulas and operand order. "
        "These are necessary conditions quantified over all constructors and formats (what a one-sample test cannot see); value equality "
        "of the two pipelines on every string is not decided.",
   note="Trusted: rustc front end (HIR, name resolution, type check), the mirfacts driver, the Python rule layer, nar_dev_utils 0.42.3 "
        "dictionary semantics as read from its pinned source."),
 "C01": dict(
   level="other", design="DESIGN.md §4 C01",
   technique="static analysis: inverse keyword maps (HIR), table ambiguity under first-match order, dominator check of the ordered-alternative conflict (MIR)",
   text="Decides structural necessary conditions of the enum format->parse round trip for every constructor and format at once: "
        "formatter and parser keyword maps are inverse on all 30 term variants, 4 punctuations, 5 stamp kinds and all truth/budget arities; "
        "operands/brackets/image index are wired in order; the three enum tables are distinct per role and unshadowed under each first-match chain; "
        "a bracketed-number alternative whose opening keyword can start a later alternative is strict (MIR dominator rule); numbers go through "
        "Display/str::parse. Value equality parse(format(v)) = v for all v is not decided.",
   note="Trusted: rustc front end/MIR construction, mirfacts driver, Python rule layer; f64 Display emits digits and '.' only for finite [0,1] values."),
 "C10": dict(
   level="other", design="DESIGN.md §4 C10",
   technique="static analysis: symbolic evaluation of derived constructors vs an independent desugaring table; callee-identity and who-may-write rules over HIR/MIR",
   text="Decides C10 as shape facts for all formats and both pipelines at once: the four derived constructors evaluate to the documented "
        "desugared trees; both the enum parser's and the fold's keyword chains route the derived copula fields to them with operands in source order; "
        "the image index is the first-placeholder position (Iterator::position / enumerate counter), removed/pushed in order, flowing without arithmetic "
        "into the only sites allowed to write it; interval = str::parse::<usize>, placeholder ignores its name. Nothing is executed.",
   note="Trusted: rustc front end/MIR, std semantics of Iterator::position, enumerate and usize::from_str; the checker's independent desugaring table (from the documentation)."),
 "C08": dict(
   level="other", design="DESIGN.md §4 C08",
   technique="static analysis: interprocedural field-effect analysis over MIR + call graph (must-reset/dominator rule), who-may-construct, Freeze/type scan",
   text="Decides the state clause of C08 completely: the set of parser-state fields any of the six entry points can write is computed over the "
        "call graph; reset_to must overwrite each on every path with a value that does not read old state, and must dominate every from_parse call "
        "on a reused state inside a loop; every other entry point builds a fresh state in the single constructor with head 0; no static mut, "
        "thread_local or interior-mutability type exists (lazy_static init-once cells of Freeze payloads excepted). Holds for all input histories "
        "because no input is involved.",
   note="Trusted: rustc MIR/call resolution, mirfacts driver, rule layer; std/dependency callees assumed stateless and deterministic."),
 "C06": dict(
   level="other", design="DESIGN.md §4 C06",
   technique="static analysis: per-constructor shape check of the hand-written PartialEq (HIR) against storage, capacity class and a NAL oracle; Hash-invariance premises on MIR",
   text="For each of the 30 constructors: storage kind = capacity class = the ordering class NAL prescribes; the PartialEq arm pairs the variant only "
        "with itself, mentions every field and has exactly the shape of its class (position-wise conjunction / HashSet equality / either-order disjunction), "
        "fallback false. Each shape is an equivalence relation given one on the components, so reflexivity/symmetry/transitivity follow by structural "
        "induction. Stability (same answer for values built from the same description) needs Hash invariance because set equality looks elements up by "
        "hash: the C07 premises are checked too. Sentence/Task/value equality is derived.",
   note="Trusted: rustc HIR/MIR, std HashSet::eq semantics, String/usize equality; the idiom recognisers of the rule layer."),
 "C07": dict(
   level="proof", design="DESIGN.md §4 C07",
   technique="static analysis: per-variant Hash-arm obligations + MIR dataflow proof that the combiner is order-independent (structural induction)",
   text="Proof by structural induction with one obligation per constructor: assuming equal components hash equally, each Hash arm is a function of the "
        "PartialEq class of the value. Ordered variants feed only Eq-compared fields in stored order; set-like and either-order variants hand their "
        "components to a function proven on MIR to be an unordered combiner (sink written outside loops, accumulator updated only by commutative-associative "
        "operations of per-item digests from fresh fixed-key hashers); no sink write inside any hash-set iteration reachable from Term::hash.",
   note="Trusted base: rustc MIR construction and call resolution; std Hash impls for String/usize/str/Box; determinism of DefaultHasher::new(); "
        "algebra of wrapping_add/xor/wrapping_mul; the rule layer's idiom recognisers (unrecognised idioms are reported, never guessed)."),
 "C09": dict(
   level="other", design="DESIGN.md §4 C09",
   technique="static analysis: interprocedural typestate (spaces-skipped / token-just-consumed) over the enum parser's MIR with summaries; must-pass-through rule for the lexical entries; table rule",
   text="Decides the structural half of C09: in the enum parser every token-start read (keyword or delimiter test, copula look-ahead, branch on the "
        "current character, or a callee that starts with one) is reached only in the state `spaces skipped` on all non-error paths (79 read sites in 49 "
        "functions; two reviewed exceptions: atom prefix+name is one token); every lexical &str entry hands the parser idealize_env(format,input), which "
        "filters all chars matching the table's is_for_parse = char::is_whitespace. Hence inserting spaces at any token boundary cannot change the parse. "
        "That removing all spaces never glues tokens for every value is not decided.",
   note="Trusted: rustc MIR, the typestate engine (one modelled flag correlation, Err edges exempt), the two listed exceptions."),
 "C14": dict(
   level="other", design="DESIGN.md §4 C14",
   technique="static analysis: sibling agreement of six exhaustive matches over the 30 constructors (HIR shape extraction) + ImageIterator shape + fold category map",
   text="30-row agreement table: storage kind = capacity class = NAL ordering class; category partitions the constructors and equals the role of the "
        "keyword that produces each; get_components / extract_terms / get_components_including_placeholder have, per variant, exactly the shape the "
        "storage dictates (self / boxed operands in order / plain iteration), images re-insert the placeholder at their own index (vec.insert(index,_) / "
        "ImageIterator(vec.iter(), index)), ImageIterator::next yields the placeholder exactly at its index; predicates compare with their own class; "
        "lexical maps and fold keep the category. No wildcard arms allowed, so the compiler keeps covering new variants.",
   note="Trusted: rustc HIR, Vec::insert / iteration-order semantics of std, the shape recognisers."),
 "C17": dict(
   level="other", design="DESIGN.md §4 C17",
   technique="static analysis: decision-table extraction (HIR) against storage/capacity classes + MIR effect analysis (no write can precede an Err return)",
   text="set_atom_name and push_components are decoded into decision tables over all constructors and compared with the storage kind and capacity class: "
        "rename = clear+push for exactly the String atoms, placeholder Ok without write, interval via str::parse::<usize> with the write only in the Ok "
        "continuation, Err otherwise; extend in order for exactly class Vec, unite for exactly class Set, Err for the fixed-capacity classes. A MIR effect "
        "analysis proves that no store or &mut borrow of *self can be followed by an Err construction (dependency helper ResultBoost::transform summarised "
        "from its pinned source).",
   note="Trusted: rustc HIR/MIR, std String/Vec/HashSet mutator semantics, usize::from_str, the pinned nar_dev_utils summary (version asserted)."),
 "C13": dict(
   level="other", design="DESIGN.md §4 C13",
   technique="static analysis: constructor-discipline shape rules over HIR (validate in position, arity ladder), delegation chain incl. hash-pinned dependency source, accessor variant tables",
   text="Every f64 reaching a Truth/Budget variant field passes exactly one 0-1 validation in its own position on both the panicking (validate_01) "
        "and the fallible (try_validate_01 + ?) path; try_from_floats is an arity ladder that validates item k before use, returns the k-component "
        "variant when item k is missing and never reads surplus items; is_valid/try_validate/validate delegate to is_in_01/try_validate_01/validate_01 "
        "whose pinned definitions give panics <=> Err <=> !(0<=x<=1); accessors return their own field for exactly the variants that have it. "
        "The root(n) numeric law is not decided.",
   note="Trusted: rustc HIR, nar_dev_utils 0.42.3 floats.rs (sha256 asserted), RangeInclusive::contains and Result::unwrap semantics."),
 "C15": dict(
   level="other", design="DESIGN.md §4 C15",
   technique="static analysis: exhaustive symbolic evaluation of the two kind-selection matches over all 32 slot assignments; variant-table extraction of casts/wrappers; must-pass-through on MIR",
   text="The enum transform_mid_result and the lexical MidParseResult::fold are evaluated as ordered decision tables on all 2^5 presence assignments of "
        "the optional slots and must equal the property's own truth table (hence each other); cast_to_task / try_cast_to_sentence (enum, lexical and the "
        "NarseseValue lift), is_X / try_into_X / from_X / try_into_task_compatible are decoded into variant tables; a dominator rule shows both formatters "
        "always write both budget brackets and the task formatter always formats the budget. kind(parse(format(v))) for all v is not decided.",
   note="Trusted: rustc HIR/MIR, std Option/Vec::is_empty semantics, the rule layer."),
 "C04": dict(
   level="other", design="DESIGN.md §4 C04",
   technique="static analysis: exhaustive MIR panic-edge inventory over the call graph + reviewed guard-signature table re-extracted each run + structural dominator rules + loop/recursion progress analysis",
   text="Every panic edge (MIR Assert, panic call, may-panic std/dep API) in the ~125 functions reachable from the 14 enum-parser entry points is "
        "inventoried; each must match a reviewed table entry by (function, kind, ordinal), with identical operand expressions and all required dominating "
        "guards still forced (no redefinition of loop-carried operands in between). Structural rules back the table: cursor reads only under can_consume "
        "with no cursor move in between, len_env coupled to env, form_* unwraps under the caller's Some tests, range-checked constructor arguments, image "
        "index 0. Every loop and recursion cycle has a progress witness on all paths and progress keywords are non-empty in all tables. Bounds arguments "
        "resting on reviewed invariants are marked as such; stack depth is not decided.",
   note="Trusted: rustc MIR, the reviewed table (panic_sites.json), axioms (usize + cannot overflow, finite iterators, unlisted external callees total)."),
 "C05": dict(
   level="other", design="DESIGN.md §4 C05",
   technique="static analysis: MIR panic-edge inventory + reviewed guard-signature table + fold discipline + table disjointness + loop/recursion progress (shrinking-slice rule)",
   text="Same inventory/table discipline for the ~170 functions reachable from the lexical parser entries and all TryFoldInto impls (54 sites, 45 of them "
        "slice borders of the segmenters): operands and required guards are re-extracted and compared each run; the fold module itself must contain no panic "
        "edge (everything via ?/ok_or, images only through to_image_*_with_placeholder, numbers through try_from_floats with validated arguments); table-level "
        "disjointness keeps prefix and suffix borders ordered; every loop steps a counter/iterator or advances by a non-empty keyword or by a returned term "
        "length (reviewed exception), every recursive segment call gets a strictly shorter slice.",
   note="Trusted: rustc MIR, the reviewed table and its invariants ('a returned border never exceeds the slice it was computed on'), nar_dev_utils matching semantics, axioms as C04."),
 "C12": dict(
   level="other", design="DESIGN.md §4 C12",
   technique="static analysis: who-may-construct / dominating-validation rules over MIR (call graph reach of parser and fold), edge-avoiding reachability for the non-empty-name rule, panic-edge inventory for formatters",
   text="Within everything reachable from the enum parser and the fold: truth/budget values with components are aggregated only inside the validating "
        "constructors, whose fields are validate_01 results in position, and every argument reaching them is range-checked on a dominating edge or is a "
        "try_validate_01 payload; the image index is written only by the range-tested constructor or as the first-placeholder position after removal; every "
        "named-atom construction from external text lies behind a non-empty test (edge-avoiding reachability in fold_atom + distinct prefixes); compounds/sets "
        "are returned only behind is_empty==false and exact length tests; the enum formatter and the Typst renderer have no panic edge outside the reviewed table.",
   note="Trusted: rustc MIR, reviewed panic-site table, axioms of C04; identifier well-formedness beyond non-emptiness is not decided."),
 "C16": dict(
   level="other", design="DESIGN.md §4 C16",
   technique="static analysis: panic-edge inventory (Typst scope), must-pass-through dominator rule for post-processing, constant-table distinctness and variant->markup injectivity from HIR",
   text="Totality: the Typst renderer's reachable functions have exactly the six reviewed index sites (guards re-extracted each run) and only iterator-driven "
        "loops. Normalisation: in all seven FormatTo<&FormatterTypst> impls post_process_whitespace dominates the return, nothing is appended afterwards and the "
        "returned value is the processed string; the function itself trims and drops a char only when it and its predecessor are both whitespace. Unambiguity "
        "(necessary conditions only): markup constants pairwise distinct per role, (feature, brackets) injective per category, non-empty connecters/copulas, "
        "three-way arity layout always emits connecter and all components, atom names go through to_debug, the Sentence accessors the renderer reads (get_punctuation / get_truth / get_stamp / get_term) return the variant's own constant / field. Injectivity over all value pairs is not decided.",
   note="Trusted: rustc HIR/MIR, reviewed table, ToDebug quoting, finite terms."),
 "C02": dict(
   level="other", design="DESIGN.md §4 C02",
   technique="static analysis: sibling call-multiset comparison (MIR), formatter/parser table-field agreement (MIR projections), table laws under the dependency's iteration order, emission-skeleton evaluation (HIR)",
   text="Structural necessary conditions of the lexical round trip, for all three formats at once: segment_budget and segment_truth are siblings (same "
        "resolved-callee multiset, both drop empty pieces, each reads only its own fields); every formatter function writes exactly the table fields of its "
        "role and the parser's counterpart reads them; content predicates cover digits/'.'/separator and reject bracket chars, the budget's closing char "
        "cannot occur in any suffix item, dictionaries are duplicate-free and extension-before-prefix (suffix dictionaries longest-suffix-first) under "
        "nar_dev_utils' descending iteration; an empty truth is omitted and defaults back to empty, a budget is never omitted; sentence order is term, "
        "punctuation, stamp, truth. Tree equality for all values is not decided.",
   note="Trusted: rustc HIR/MIR, nar_dev_utils 0.42.3 dictionary/join semantics (source hash asserted), rule layer."),
 "C11": dict(
   level="other", design="DESIGN.md §4 C11",
   technique="static analysis: table extraction vs the README's PEG (parsed each run) and a frozen OpenNARS reference lexicon; symbolic emission skeletons of templates and formatter wiring",
   text="Lexicon clause decided exactly: every ASCII keyword of both tables lies in the token class the README grammar assigns to its role (literal brackets "
        "and separators, the four copula alternatives, connecter/prefix/punctuation character classes via Unicode categories, stamp shape) and equals the "
        "frozen OpenNARS-compatible reference lexicon (catches formatter and parser drifting together). Layout clause: the six template functions and the "
        "enum/lexical formatter wiring are evaluated symbolically to emission skeletons and compared with the grammar's productions (compound, set, statement, "
        "sentence item order, task = budget sentence, numeric lists). Equality of the grammar's derivation tree with the lexical parser's result for every "
        "output is not decided.",
   note="Trusted: rustc HIR, README pest block, the frozen reference lexicon, Unicode category data of the Python runtime."),
}

# additions from the bug-hunting round (DESIGN.md §5.1): rule + known findings printed as KNOWN-FINDING lines (exit 0)
EXTRA = {
 "C01": " Also: every use of the weak prefix matcher [char]::starts_with_str is length-guarded (P-FULLMATCH, defect D9 fixed); unique tokenisation where a "
        "name touches a copula or the budget brackets is computed from the tables (T-JUXTAPOSE, T-BUDGET-IDENT): the Han collisions are recorded as known findings.",
 "C02": " Also: name/copula juxtaposition (T-JUXTAPOSE, 7 Han known findings) and formatter/parser arity agreement (A-ARITY-LEX, zero-component compound/set known findings).",
 "C03": " Also: full-match keyword recognition (P-FULLMATCH, D9) and `suffix items are cut only off a sentence` (S-SUFFIX, D11 fixed).",
 "C05": " Also: every use of [char]::starts_with_str, which is true for a slice that ends inside the needle, is length-guarded (P-FULLMATCH, panic D10 fixed); "
        "B-LEN proves the border invariant by assume/guarantee over 16 functions (every returned border <= len(env), every slice upper bound) with a small set of "
        "inequality rules over copy-resolved MIR; L-ONCE forbids a second attempt of a recursion-cycle member over the same slice (exponential backtracking).",
 "C04": " Also L-ONCE: after a member of the recursion cycle failed, no member is called again before an unconditional cursor advance (no exponential retry).",
 "C09": " Also: P-FULLMATCH (a trailing space after a bare atom, D9), S-SUFFIX (D11) and T-JUXTAPOSE (removing the space between a name and a copula must not move the "
        "token boundary: 12 Han known findings).",
 "C10": " Also: a written derived copula stays the copula that is read when the subject name touches it (T-JUXTAPOSE; Han 具+有 known finding in both pipelines).",
 "C11": " Also: sibling agreement on where a name ends (T-PEG-LOOKAHEAD): the grammar's generic !copula look-ahead vs the library's concrete copulas over the atom alphabet; "
        "4 known findings (name-internal ---, --_, _--, _-_).",
 "C15": " Also: budget borders are char counts (U-CHARS) and the budget brackets must not be spellable inside a name (T-BUDGET-IDENT; Han known finding in both parsers).",
 "C17": " No arm of set_atom_name may be guarded or duplicated, and the Interval arm is exactly new_name.parse::<usize>().transform(..).",
}
for k, v in EXTRA.items():
    CLAIMS[k]["text"] += v
for k in CLAIMS:
    CLAIMS[k]["note"] += (" Reference comparisons (skeleton tables, reviewed guards, shape rules) are made on normal forms (DESIGN 2.2): renamed or "
                          "re-parameterised private functions are mapped back to their reviewed form, new helper functions and locally called closures "
                          "are transparent, sites proved by B-LEN need no reference; 233 of 248 independently written behaviour-preserving refactorings stay "
                          "silent (plain maintenance edits almost always, deliberate restructuring of a reviewed function often not), the 15 residual ones are listed in DESIGN 9.5.")

NOT_YET = "check not built yet (DESIGN.md §8 build order); will be claimed once its rules run"

checks, na = [], []
for p in props:
    pid = p["id"]
    c = CLAIMS.get(pid)
    if not c:
        na.append({"property_id": pid, "reason": NOT_YET})
        continue
    checks.append({
        "property_id": pid,
        "quick_cmd": "checks/check %s --tier quick" % pid,
        "thorough_cmd": "checks/check %s --tier thorough" % pid,
        "evidence_file": "evidence/%s.json" % pid,
        "replay_cmd_template": "cat {path}",
        "engine": "mirfacts+rules",
        "level_claimed": {"category": c["level"], "text": c["text"], "design_ref": c["design"]},
        "level_note": c["note"],
        "technique": c["technique"],
    })
m = {
 "version": 1,
 "setup_cmd": "bin/setup.sh",
 "hooks": {"guard": "arcj137442_narsese_rs_verif",
           "enable": "bin/extract.sh type-checks /repo with RUSTFLAGS `--cfg arcj137442_narsese_rs_verif` (cargo +nightly check, nothing is executed): the two "
                     "guarded functions __verif_enum_nse_expansion / __verif_lexical_nse_expansion (one expansion of enum_nse! and of lexical_nse! with a string "
                     "literal) become part of the fact base, so that W-MACRO (C09) can read what the macro_rules definitions expand to; the cfg name is "
                     "declared under [lints.rust] unexpected_cfgs in Cargo.toml so that normal builds do not warn",
           "baseline_off_cmd": "cd /repo && cargo test --workspace --no-fail-fast --offline",
           "source_commits": ["c72fd50"], "add_only": True},
 "engines": [
  {"name": "mirfacts", "path": "engines/mirfacts", "serves_properties": [c["property_id"] for c in checks],
   "kind_free_text": "rustc_private driver (nightly) run as RUSTC_WORKSPACE_WRAPPER under cargo check: dumps name-resolved, type-checked HIR expression trees, opt-level-0 MIR with resolved callees/field names/panic edges, ADT definitions, impls, statics/consts as JSON; nothing of /repo is executed"},
  {"name": "rules", "path": "checks", "serves_properties": [c["property_id"] for c in checks],
   "kind_free_text": "python3 (stdlib) rule evaluators over the fact file: table laws, keyword<->constructor maps, CFG/dominator/loop/call-graph rules, typestate, sibling agreement; known-findings gate and evidence writer"},
 ],
 "checks": checks,
 "notes": "Every check re-extracts facts from /repo's current working tree (content-hash cache under .cache/ keyed by the tree, so a changed tree always re-extracts). Exit 2 = infrastructure/anchor failure (fail closed), never a VIOLATION.",
 "not_applicable": na,
}
json.dump(m, open(os.path.join(V, "MANIFEST.json"), "w"), indent=1, ensure_ascii=False)
print("claimed:", [c["property_id"] for c in checks], "n/a:", len(na))
