#!/usr/bin/env python3
"""automut_regress.py [-j N] [--limit K]
Regression run of the automatic mutation analysis (bin/automut.py): every mutant that some check KILLED in the stored results
(.automut/results.json) is generated again and the checks that reported it then are run again (all 17 if none of them fires any more).
A mutant that was killed before and survives now is a loss of detection power -- the question asked after a batch of false-alarm fixes
(normal forms, transparent helpers): did comparing less spelling make the rules accept more programs?  Writes .automut/regress.json.
Not part of any registered command."""
import json, os, shutil, subprocess, sys, tempfile, time
from concurrent.futures import ThreadPoolExecutor
V = os.path.dirname(os.path.dirname(os.path.abspath(__file__)))
sys.path.insert(0, os.path.join(V, "bin"))
import automut as A

PROPS = A.PROPS


def check(repo, tmp, pid):
    env = dict(os.environ, VERIF_TIER="quick", VERIF_NO_BATTERY="1", VERIF_REPO=repo, VERIF_CACHE_DIR=os.path.join(tmp, "cache"),
               VERIF_EVIDENCE_DIR=os.path.join(tmp, "ev"), VERIF_REPLAY_DIR=os.path.join(tmp, "rp"))
    r = subprocess.run([os.path.join(V, "checks/check"), pid, "--tier", "quick"], env=env, capture_output=True, text=True)
    out = r.stdout + r.stderr
    if r.returncode == 2 and "INFRA-FAILURE" in out and "extraction failed" in out:
        return "INVALID", ""
    if r.returncode == 0:
        return "SILENT", ""
    v = [l.strip()[10:170] for l in out.splitlines() if l.strip().startswith("violated:")]
    return "FIRED", (v[0] if v else out.strip().split("\n")[-1][:160])


def one(m):
    t0 = time.time()
    tmp = tempfile.mkdtemp(prefix="amr-%s-" % m["id"], dir="/tmp")
    try:
        repo = A.make_copy(m, tmp)
        if repo is None:
            return dict(id=m["id"], status="STALE")
        before = sorted(m.get("fired", {}))
        for pid in before + [p for p in PROPS if p not in before]:
            st, what = check(repo, tmp, pid)
            if st == "INVALID":
                return dict(id=m["id"], status="INVALID")
            if st == "FIRED":
                return dict(id=m["id"], status="KILLED", by=pid, what=what, secs=round(time.time() - t0, 1))
        return dict(id=m["id"], status="SURVIVED", file=m["file"], line=m["line"], op=m["op"], old=m["old"], new=m["new"], before=m.get("fired"),
                    secs=round(time.time() - t0, 1))
    finally:
        shutil.rmtree(tmp, ignore_errors=True)


def main():
    args = sys.argv[1:]
    j = int(args[args.index("-j") + 1]) if "-j" in args else 14
    prev = json.load(open(os.path.join(A.OUT, "results.json")))
    ms = [m for m in prev if m.get("status") == "KILLED"]
    if "--limit" in args:
        ms = ms[:int(args[args.index("--limit") + 1])]
    print("re-running %d previously killed mutants with %d workers" % (len(ms), j), flush=True)
    res = []
    t0 = time.time()
    with ThreadPoolExecutor(max_workers=j) as ex:
        for k, r in enumerate(ex.map(one, ms)):
            res.append(r)
            if (k + 1) % 100 == 0:
                print("  %d/%d %.0fs  survived so far: %d" % (k + 1, len(ms), time.time() - t0, sum(1 for x in res if x["status"] == "SURVIVED")), flush=True)
    json.dump(res, open(os.path.join(A.OUT, "regress.json"), "w"), ensure_ascii=False, indent=0)
    from collections import Counter
    print(Counter(r["status"] for r in res))
    for r in res:
        if r["status"] == "SURVIVED":
            print("LOST %s:%s %s | %s -> %s | was %s" % (r["file"], r["line"], r["op"], r["old"].strip()[:70], r["new"].strip()[:70], list((r.get("before") or {}).items())[:1]))


if __name__ == "__main__":
    main()
