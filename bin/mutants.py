#!/usr/bin/env python3
"""Self-test battery: each catalogue entry breaks exactly one rule instance in a scratch copy of
/repo (text substitution that must match exactly once), the copy must still type-check (the
extraction is a `cargo check`), and the named property check must exit 1 with a violation key
containing `expect`.  `control` entries are behaviour-preserving edits that must stay silent.
usage: mutants.py [--only ID,ID] [--prop C01] [-j N]"""
import json, os, shutil, subprocess, sys, tempfile, time
from concurrent.futures import ThreadPoolExecutor
V = os.path.dirname(os.path.dirname(os.path.abspath(__file__)))
sys.path.insert(0, os.path.join(V, "mutants"))
import catalog

REPO = os.environ.get("VERIF_REPO", "/repo")


def run_one(m):
    t0 = time.time()
    tmp = tempfile.mkdtemp(prefix="mut-%s-" % m["id"], dir="/tmp")
    try:
        repo = os.path.join(tmp, "repo")
        subprocess.run(["rsync", "-a", "--exclude", "target", "--exclude", ".git", REPO + "/", repo + "/"], check=True)
        if m.get("patch"):
            r0 = subprocess.run(["patch", "-p1", "-s", "-i", os.path.join(V, m["patch"])], cwd=repo, capture_output=True, text=True)
            if r0.returncode != 0:
                return dict(id=m["id"], status="STALE", detail="patch does not apply: " + (r0.stdout + r0.stderr)[-200:])
        for ed in m.get("edits", []):
            p = os.path.join(repo, ed["file"])
            s = open(p, encoding="utf-8").read()
            n = s.count(ed["old"])
            if n != 1:
                return dict(id=m["id"], status="STALE", detail="pattern matches %d times in %s" % (n, ed["file"]))
            s = s.replace(ed["old"], ed["new"])
            open(p, "w", encoding="utf-8").write(s)
        env = dict(os.environ, VERIF_TIER="quick", VERIF_NO_BATTERY="1", VERIF_REPO=repo, VERIF_CACHE_DIR=os.path.join(tmp, "cache"), VERIF_EVIDENCE_DIR=os.path.join(tmp, "ev"), VERIF_REPLAY_DIR=os.path.join(tmp, "rp"))
        res = {}
        for pid in m["props"]:
            r = subprocess.run([os.path.join(V, "checks/check"), pid, "--tier", "quick"], env=env, capture_output=True, text=True)
            res[pid] = (r.returncode, r.stdout + r.stderr)
        control = m.get("control", False)
        status, detail = "OK", ""
        for pid, (rc, out) in res.items():
            if rc == 2:
                status, detail = "INVALID", "%s: exit 2 (does not build / anchor): %s" % (pid, out[-400:])
                break
            if control:
                if rc != 0:
                    status, detail = "FALSE-ALARM", "%s: %s" % (pid, out[-600:])
            else:
                exp = m["expect"].get(pid) if isinstance(m["expect"], dict) else m["expect"]
                if exp is None:
                    if rc != 0:
                        status, detail = "FALSE-ALARM", "%s must stay silent: %s" % (pid, out[-500:])
                    continue
                hit = rc == 1 and any(exp in l for l in out.splitlines() if l.strip().startswith("violated:"))
                if not hit:
                    status, detail = "MISSED", "%s: rc=%d expected key containing %r; got: %s" % (pid, rc, exp, out[-600:])
        return dict(id=m["id"], status=status, detail=detail, secs=round(time.time() - t0, 1))
    finally:
        shutil.rmtree(tmp, ignore_errors=True)


def main():
    args = sys.argv[1:]
    only, prop, j = None, None, 8
    if "--only" in args:
        only = set(args[args.index("--only") + 1].split(","))
    if "--prop" in args:
        prop = args[args.index("--prop") + 1]
    if "-j" in args:
        j = int(args[args.index("-j") + 1])
    ms = [m for m in catalog.MUTANTS if (not only or m["id"] in only) and (not prop or prop in m["props"])]
    if prop:
        # the thorough tier of ONE property runs only that property's check on each of its entries
        ms = [dict(m, props=[prop]) for m in ms]
    with ThreadPoolExecutor(max_workers=j) as ex:
        results = list(ex.map(run_one, ms))
    bad = 0
    for r in results:
        print("%-40s %-11s %s %s" % (r["id"], r["status"], r.get("secs", ""), r["detail"][:700]))
        if r["status"] != "OK":
            bad += 1
    print("battery: %d entries, %d ok, %d not ok" % (len(results), len(results) - bad, bad))
    json.dump(results, open(os.path.join(V, ".cache", "battery_last.json"), "w"), indent=1)
    return 1 if bad else 0


if __name__ == "__main__":
    sys.exit(main())
