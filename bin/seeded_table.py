#!/usr/bin/env python3
"""Regenerates the seeded-change table of DESIGN.md §9.2 from /verif/seeded/*/meta.json."""
import glob, json, os, re
V = os.path.dirname(os.path.dirname(os.path.abspath(__file__)))
rows = ["| seed | property | change (needs to manifest) | confirmed | caught by (first violated rule per check) | note |", "|---|---|---|---|---|---|"]
n = ok = first_missed = 0
for mp in sorted(glob.glob(os.path.join(V, "seeded", "*", "meta.json"))):
    m = json.load(open(mp, encoding="utf-8"))
    n += 1
    fired = []
    for pid, v in sorted(m.get("checks_fired", {}).items()):
        if v["exit"] == 1:
            k = v["violations"][0]
            rule = " ".join(k.split(" ")[:1])
            fired.append("%s `%s`" % (pid, rule))
    if m.get("detected_by_target_property_check"):
        ok += 1
    note = m.get("strengthening", "")
    if m.get("first_evaluation") and not m["first_evaluation"].get("detected_by_target_property_check"):
        first_missed += 1
    summ = (m.get("summary") or "").replace("|", "/").replace("\n", " ")
    need = (m.get("needs_to_manifest") or "").replace("|", "/").replace("\n", " ")
    rows.append("| %s | %s | %s *(%s)* | %s | %s | %s |" % (m["id"], m["breaks_property"], summ[:220], need[:160],
                                                         "yes" if m["confirmation"]["confirmed"] else "NO", "; ".join(fired) or "**missed**", note))
rows.append("")
rows.append("%d seeds, %d caught by the check of the property they target (%d of them only after a rule was added, see the note column)." % (n, ok, first_missed))
txt = "\n".join(rows)
p = os.path.join(V, "DESIGN.md")
s = open(p, encoding="utf-8").read()
if "SEEDED_TABLE_PLACEHOLDER" in s:
    s = s.replace("SEEDED_TABLE_PLACEHOLDER", "<!-- SEEDED-TABLE-BEGIN -->\n" + txt + "\n<!-- SEEDED-TABLE-END -->")
else:
    s = re.sub(r"<!-- SEEDED-TABLE-BEGIN -->.*?<!-- SEEDED-TABLE-END -->", lambda _: "<!-- SEEDED-TABLE-BEGIN -->\n" + txt + "\n<!-- SEEDED-TABLE-END -->", s, flags=re.S)
open(p, "w", encoding="utf-8").write(s)
print(rows[-1])
