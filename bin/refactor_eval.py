#!/usr/bin/env python3
"""refactor_eval.py <source dir with patch.diff meta.json> <control id>
Evaluates an independently written BEHAVIOUR-PRESERVING refactoring of /repo: confirms in a scratch worktree that the suite and the
triage oracle (tools/oracle/oracle.rs) stay green with the patch, then runs every quick check against a scratch copy of /repo with the patch applied, and stores
the result under /verif/controls/<id>/ (patch.diff, meta.json incl. which checks raised an alarm = false alarms)."""
import json, os, shutil, subprocess, sys, tempfile
V = os.path.dirname(os.path.dirname(os.path.abspath(__file__)))
REPO = "/repo"


def sh(cmd, cwd=None, env=None, timeout=1800):
    r = subprocess.run(cmd, cwd=cwd, env=env, shell=True, capture_output=True, text=True, timeout=timeout)
    return r.returncode, r.stdout + r.stderr


def main():
    src, cid = sys.argv[1], sys.argv[2]
    meta = json.load(open(os.path.join(src, "meta.json"), encoding="utf-8")) if os.path.exists(os.path.join(src, "meta.json")) else {}
    patch = os.path.abspath(os.path.join(src, "patch.diff"))
    prev = os.path.join(V, "controls", cid, "meta.json")
    prev_conf = json.load(open(prev, encoding="utf-8")).get("confirmation") if os.path.exists(prev) else None
    if prev_conf and prev_conf.get("behaviour_preserved") and os.path.abspath(src) == os.path.abspath(os.path.join(V, "controls", cid)):
        return evaluate(src, cid, meta, patch, prev_conf)          # re-evaluation of a stored control: the confirmation is kept
    wt = tempfile.mkdtemp(prefix="rfchk-", dir="/tmp")
    os.rmdir(wt)
    rc, out = sh("git -C %s worktree add -q --detach %s HEAD" % (REPO, wt))
    assert rc == 0, out
    conf = {}
    try:
        rc, out = sh("git apply %s" % patch, cwd=wt)
        conf["patch_applies"] = rc == 0
        os.makedirs(os.path.join(wt, "tests"), exist_ok=True)
        shutil.copy(os.path.join(V, "tools", "oracle", "oracle.rs"), os.path.join(wt, "tests", "oracle.rs"))
        rc, out = sh("cargo test --workspace --no-fail-fast --offline 2>&1 | grep -E '^test result|FAILED|^error' | head", cwd=wt)
        conf["suite_and_oracle_with_patch"] = out.strip().replace("\n", " | ")
        conf["behaviour_preserved"] = bool(conf["patch_applies"] and "157 passed; 0 failed" in out and "17 passed; 0 failed" in out and "FAILED" not in out and "error" not in out)
    finally:
        sh("git -C %s worktree remove --force %s" % (REPO, wt))
        shutil.rmtree(wt, ignore_errors=True)
    return evaluate(src, cid, meta, patch, conf)


def evaluate(src, cid, meta, patch, conf):
    fired = {}
    # the checks run against a scratch COPY of /repo with the patch applied (VERIF_REPO), never against /repo itself
    scratch = tempfile.mkdtemp(prefix="rfrun-", dir="/tmp")
    try:
        repo = os.path.join(scratch, "repo")
        rc, out = sh("rsync -a --exclude target --exclude .git %s/ %s/ && cd %s && patch -p1 -s -i %s" % (REPO, repo, repo, patch))
        assert rc == 0, out
        env = dict(os.environ, VERIF_REPO=repo, VERIF_CACHE_DIR=os.path.join(scratch, "cache"), VERIF_EVIDENCE_DIR=os.path.join(scratch, "ev"),
                   VERIF_REPLAY_DIR=os.path.join(scratch, "rp"), VERIF_TIER="quick", VERIF_NO_BATTERY="1")
        for i in range(1, 18):
            pid = "C%02d" % i
            rc, out = sh("%s/checks/check %s --tier quick" % (V, pid), cwd=V, env=env)
            keys = [l.strip()[len("violated: "):] for l in out.splitlines() if l.strip().startswith("violated:")]
            if rc != 0:
                fired[pid] = {"exit": rc, "alarms": [k[:300] for k in keys][:6] or [out.strip()[-300:]]}
    finally:
        shutil.rmtree(scratch, ignore_errors=True)
    dst = os.path.join(V, "controls", cid)
    os.makedirs(dst, exist_ok=True)
    if os.path.abspath(src) != os.path.abspath(dst):
        shutil.copy(patch, os.path.join(dst, "patch.diff"))
    first = None
    mp = os.path.join(dst, "meta.json")
    if os.path.exists(mp):
        first = json.load(open(mp, encoding="utf-8")).get("first_evaluation")
    if os.path.exists(mp):
        old_m = json.load(open(mp, encoding="utf-8"))
        meta = {k: meta.get(k) or old_m.get(k) for k in ("kind", "files", "summary")}
    m = {"id": cid, "author": "independent sub-agent (saw the repository worktree and the oracle, nothing from /verif)",
         "kind": meta.get("kind"), "files": meta.get("files"), "summary": meta.get("summary"),
         "confirmation": conf, "false_alarms": fired, "silent": not fired}
    if os.path.exists(mp) and json.load(open(mp, encoding="utf-8")).get("accepted_residual"):
        m["accepted_residual"] = json.load(open(mp, encoding="utf-8"))["accepted_residual"]
    m["first_evaluation"] = first or {"false_alarms": {k: v["alarms"][:2] for k, v in fired.items()}}
    if len(sys.argv) > 3:
        m["note"] = sys.argv[3]
    json.dump(m, open(mp, "w", encoding="utf-8"), ensure_ascii=False, indent=1)
    print("%s preserved=%s silent=%s" % (cid, conf.get("behaviour_preserved"), not fired))
    for pid, v in fired.items():
        print("    FALSE ALARM %s %s %s" % (pid, v["exit"], str(v["alarms"])[:300]))


if __name__ == "__main__":
    main()
