#!/usr/bin/env python3
"""Automatic mutation analysis OF THE CHECKERS (not a check): generates small syntactic mutants of /repo's non-test source,
runs all 17 quick checks on each mutant that still type-checks, and lists the mutants NO check notices ("survivors").
Optionally classifies survivors with a dynamic oracle (an integration test file, run only as a triage aid for the people
maintaining the checks -- it is not part of any registered command and decides nothing).

usage: automut.py gen                      -> .cache/automut/mutants.json
       automut.py run [-j N] [--limit K] [--files substr,substr] [--ops op,op]   -> .cache/automut/results.json
       automut.py triage --oracle /path/to/oracle.rs [-j N]                     -> .cache/automut/triage.json
       automut.py report
Operators: REL (relational flip), BOOL (&& <-> ||), NEG (drop a leading !), CONST (0<->1, +1 -> +2 ...), FIELD (.0 <-> .1),
           DEL (delete one statement line that is a call), OPT (is_some <-> is_none, is_empty negated), OKERR (`true =>`/`false =>` swap)"""
import json, os, re, shutil, subprocess, sys, tempfile, time, hashlib
from concurrent.futures import ThreadPoolExecutor

V = os.path.dirname(os.path.dirname(os.path.abspath(__file__)))
REPO = os.environ.get("VERIF_REPO", "/repo")
OUT = os.path.join(V, ".automut")
PROPS = ["C%02d" % i for i in range(1, 18)]


def source_files():
    out = []
    for root, ds, fs in os.walk(os.path.join(REPO, "src")):
        for f in fs:
            if f.endswith(".rs"):
                out.append(os.path.relpath(os.path.join(root, f), REPO))
    return sorted(out)


def code_lines(text):
    """(line index, line) for lines outside #[cfg(test)] modules, comments, doc tests and macro_rules bodies"""
    lines = text.split("\n")
    skip_from = None
    for i, l in enumerate(lines):
        if re.match(r"\s*#\[cfg\(test\)\]", l):
            skip_from = i
            break
    res = []
    in_macro = 0
    for i, l in enumerate(lines):
        if skip_from is not None and i >= skip_from:
            break
        s = l.strip()
        if s.startswith("//") or s.startswith("#[") or s.startswith("#!["):
            continue
        if s.startswith("macro_rules!"):
            in_macro = 1
        if in_macro:
            in_macro += l.count("{") - l.count("}")
            if in_macro <= 1 and "}" in l and not s.startswith("macro_rules!"):
                in_macro = 0
            continue
        # strip trailing comment
        res.append((i, l))
    return lines, res


def strip_comment(l):
    # naive: cut at // that is not inside a string
    out, instr, i = [], False, 0
    while i < len(l):
        c = l[i]
        if c == '"' and (i == 0 or l[i - 1] != "\\"):
            instr = not instr
        if not instr and l[i:i + 2] == "//":
            break
        out.append(c)
        i += 1
    return "".join(out)


SIBLINGS = [("extension", "intension"), ("Extension", "Intension"), ("predictive", "concurrent", "retrospective"), ("Predictive", "Concurrent", "Retrospective"),
            ("independent", "dependent", "query"), ("Independent", "Dependent", "Query"), ("judgement", "goal", "question", "quest"),
            ("Judgement", "Goal", "Question", "Quest"), ("past", "present", "future"), ("Past", "Present", "Future"), ("truth", "budget"), ("Truth", "Budget"),
            ("subject", "predicate"), ("left", "right"), ("prefix", "suffix"), ("single", "double", "triple"), ("Single", "Double", "Triple"),
            ("conjunction", "disjunction"), ("Conjunction", "Disjunction"), ("sequential", "parallel"), ("Sequential", "Parallel"),
            ("inheritance", "similarity"), ("Inheritance", "Similarity"), ("implication", "equivalence"), ("Implication", "Equivalence"),
            ("instance", "property"), ("intersection", "difference"), ("Intersection", "Difference"), ("product", "image"), ("Product", "Image"),
            ("word", "operator"), ("Word", "Operator"), ("interval", "placeholder"), ("term", "sentence", "task"), ("Term", "Sentence", "Task"),
            ("Some", "None"), ("Ok", "Err"), ("push", "insert"), ("first", "last"), ("frequency", "confidence"), ("priority", "durability", "quality"),
            ("statement", "compound"), ("Statement", "Compound"), ("Atom", "Compound"), ("Vec", "Set"), ("BinaryVec", "BinarySet"), ("Unary", "BinaryVec"),
            ("connecter", "copula"), ("separator", "space"), ("format_terms", "format_items"), ("stamp", "punctuation"), ("head", "len_env")]
REL = [(" == ", " != "), (" != ", " == "), (" < ", " <= "), (" <= ", " < "), (" > ", " >= "), (" >= ", " > ")]


def mutants_of_line(l):
    """[(op, new line)]"""
    code = strip_comment(l)
    tail = l[len(code):]
    outs = []
    if not code.strip():
        return outs

    def sub_each(pat, rep, op, is_regex=False):
        if is_regex:
            for m in re.finditer(pat, code):
                new = code[:m.start()] + m.expand(rep) + code[m.end():]
                if new != code:
                    outs.append((op, new + tail))
        else:
            start = 0
            while True:
                k = code.find(pat, start)
                if k < 0:
                    break
                # not inside a string literal (rough: even number of quotes before)
                if code[:k].count('"') % 2 == 0:
                    outs.append((op, code[:k] + rep + code[k + len(pat):] + tail))
                start = k + len(pat)
    for a, b in REL:
        sub_each(a, b, "REL")
    sub_each(" && ", " || ", "BOOL")
    sub_each(" || ", " && ", "BOOL")
    sub_each(r"(\bif |\bwhile |&& |\|\| |=> |\()!(?=[a-zA-Z_(])", r"\1", "NEG", True)
    sub_each(r"\.is_some\(\)", ".is_none()", "OPT", True)
    sub_each(r"\.is_none\(\)", ".is_some()", "OPT", True)
    sub_each(r"(\b[\w\.\(\)\[\]&\*]+)\.is_empty\(\)", r"!\1.is_empty()", "OPT", True)
    sub_each(r"\+ 1\b", "+ 2", "CONST", True)
    sub_each(r"- 1\b", "- 0", "CONST", True)
    sub_each(r"\+= 1\b", "+= 2", "CONST", True)
    sub_each(r"(?<![\w\.])0(?![\w\.])", "1", "CONST", True)
    sub_each(r"(?<![\w\.])1(?![\w\.])", "0", "CONST", True)
    sub_each(r"(?<![\w\.])2(?![\w\.])", "1", "CONST", True)
    sub_each(r"\.0\b(?!\.\d)", ".1", "FIELD", True)
    sub_each(r"\.1\b(?!\.\d)", ".0", "FIELD", True)
    sub_each(r"\btrue =>", "false =>", "OKERR", True)
    sub_each(r"\bfalse =>", "true =>", "OKERR", True)
    sub_each(r"\btrue\b(?! =>)", "false", "OKERR", True)
    sub_each(r"\bfalse\b(?! =>)", "true", "OKERR", True)
    # sibling identifiers (one token of a family replaced by another member)
    for fam in SIBLINGS:
        for a in fam:
            for m in re.finditer(r"(?<![A-Za-z])%s(?![a-z])" % re.escape(a), code):
                if code[:m.start()].count('"') % 2:
                    continue
                for b in fam:
                    if b != a:
                        outs.append(("SIB", code[:m.start()] + b + code[m.end():] + tail))
                        break
    # swap two simple arguments of a call
    for m in re.finditer(r"\((\w[\w\.]*), (\w[\w\.]*)\)", code):
        if m.group(1) != m.group(2) and code[:m.start()].count('"') % 2 == 0:
            outs.append(("ARGSWAP", code[:m.start()] + "(%s, %s)" % (m.group(2), m.group(1)) + code[m.end():] + tail))
    sub_each(r"\.min\(", ".max(", "MINMAX", True)
    sub_each(r"\.max\(", ".min(", "MINMAX", True)
    # drop error propagation: `x?;` -> `let _ = x;`
    m = re.match(r"^(\s*)(self\.[\w\.]+\(.*\))\?;\s*$", code)
    if m:
        outs.append(("QMARK", "%slet _ = %s;" % (m.group(1), m.group(2)) + tail))
    # negate a whole if / while condition
    m = re.match(r"^(\s*(?:\} else )?(?:if|while) )(?!let )(.+)( \{\s*)$", code)
    if m:
        outs.append(("NEGCOND", "%s!(%s)%s" % (m.group(1), m.group(2), m.group(3)) + tail))
    # range end inclusive / exclusive
    sub_each(r"\.\.=", "..", "RANGE", True)
    sub_each(r"(?<![\.=])\.\.(?![\.=])(?=[\w(])", "..=", "RANGE", True)
    # sibling methods
    for a_, b_ in (("trim_start_matches", "trim_end_matches"), ("trim_end_matches", "trim_start_matches"), ("starts_with", "ends_with"), ("ends_with", "starts_with"),
                   ("head_skip_and_spaces", "head_skip_after_spaces"), ("head_skip_after_spaces", "head_skip_and_spaces"), (".first()", ".last()"), (".last()", ".first()"),
                   ("unwrap_or_default", "unwrap"), (".iter()", ".iter().rev()"), (".into_iter()", ".into_iter().rev()"), ("chars().count()", "len()"),
                   ("is_alphanumeric", "is_alphabetic"), ("is_whitespace", "is_ascii_whitespace"), ("to_string()", "to_string().to_uppercase()"),
                   ("wrapping_add", "wrapping_mul"), (".take()", ".clone()"), ("position(", "rposition(")):
        sub_each(a_, b_, "CALLSIB")
    # keyword tables: tweak a string literal (only short literals that look like keywords)
    for m in re.finditer(r'"((?:[^"\\]|\\.){1,12})"', code):
        if "=>" in code or ":" in code.split('"')[0][-14:] or "(" in code.split('"')[0][-3:]:
            outs.append(("STR", code[:m.start()] + '"' + m.group(1) + 'x"' + code[m.end():] + tail))
            break
    st = code.strip()
    if re.match(r"^(self|out|s|terms|target|vec|set|result|name|name_buffer|value_buffer|buffer)\b[\w\.\(\)]*\.\w+\(.*\);$", st) or re.match(r"^\w+!\(.*\);$", st) is None and re.match(r"^self\.\w+\(.*\)\?;$", st):
        outs.append(("DEL", re.sub(r"\S.*$", "();", code, count=1) + tail))
    # de-duplicate
    seen, res = set(), []
    for op, n in outs:
        if n not in seen and n != l:
            seen.add(n)
            res.append((op, n))
    return res


def gen():
    os.makedirs(OUT, exist_ok=True)
    ms = []
    for rel in source_files():
        text = open(os.path.join(REPO, rel), encoding="utf-8").read()
        lines, cl = code_lines(text)
        for i, l in cl:
            for op, new in mutants_of_line(l):
                mid = hashlib.sha1(("%s:%d:%s" % (rel, i, new)).encode()).hexdigest()[:10]
                ms.append({"id": mid, "file": rel, "line": i + 1, "op": op, "old": l, "new": new})
        # two-line operators, encoded as a replacement of the first line by "second\nfirst" / of an arm body by the previous arm's body
        idx = dict(cl)
        for i, l in cl:
            j = i + 1
            if j in idx:
                a_, b_ = strip_comment(l), strip_comment(idx[j])
                ia, ib = len(a_) - len(a_.lstrip()), len(b_) - len(b_.lstrip())
                if ia == ib and a_.strip().endswith(";") and b_.strip().endswith(";") and not a_.strip().startswith(("let ", "use ", "return", "//")) \
                        and not b_.strip().startswith(("let ", "use ", "//")) and a_.strip() != b_.strip():
                    mid = hashlib.sha1(("%s:%d:swap" % (rel, i)).encode()).hexdigest()[:10]
                    ms.append({"id": mid, "file": rel, "line": i + 1, "op": "STMTSWAP", "old": l, "new": idx[j] + "\n" + l, "drop_next": True})
                ma = re.match(r"^(\s*)([^=]+?) => ([^{].*),\s*$", a_)
                mb = re.match(r"^(\s*)([^=]+?) => ([^{].*),\s*$", b_)
                if ma and mb and ma.group(1) == mb.group(1) and ma.group(3) != mb.group(3):
                    mid = hashlib.sha1(("%s:%d:armcopy" % (rel, j)).encode()).hexdigest()[:10]
                    ms.append({"id": mid, "file": rel, "line": j + 1, "op": "ARMCOPY", "old": idx[j], "new": "%s%s => %s," % (mb.group(1), mb.group(2), ma.group(3))})
    json.dump(ms, open(os.path.join(OUT, "mutants.json"), "w"), ensure_ascii=False, indent=0)
    by = {}
    for m in ms:
        by[m["op"]] = by.get(m["op"], 0) + 1
    print("generated %d mutants over %d files: %s" % (len(ms), len(source_files()), by))


def make_copy(m, tmp):
    repo = os.path.join(tmp, "repo")
    subprocess.run(["rsync", "-a", "--exclude", "target", "--exclude", ".git", REPO + "/", repo + "/"], check=True)
    p = os.path.join(repo, m["file"])
    lines = open(p, encoding="utf-8").read().split("\n")
    if lines[m["line"] - 1] != m["old"]:
        return None
    lines[m["line"] - 1] = m["new"]
    if m.get("drop_next"):
        del lines[m["line"]]
    open(p, "w", encoding="utf-8").write("\n".join(lines))
    return repo


def run_static(m):
    t0 = time.time()
    tmp = tempfile.mkdtemp(prefix="amut-%s-" % m["id"], dir="/tmp")
    try:
        repo = make_copy(m, tmp)
        if repo is None:
            return dict(m, status="STALE")
        env = dict(os.environ, VERIF_TIER="quick", VERIF_NO_BATTERY="1", VERIF_REPO=repo, VERIF_CACHE_DIR=os.path.join(tmp, "cache"), VERIF_EVIDENCE_DIR=os.path.join(tmp, "ev"), VERIF_REPLAY_DIR=os.path.join(tmp, "rp"))
        fired, invalid = {}, False
        for pid in PROPS:
            r = subprocess.run([os.path.join(V, "checks/check"), pid, "--tier", "quick"], env=env, capture_output=True, text=True)
            out = r.stdout + r.stderr
            if r.returncode == 2:
                if "INFRA-FAILURE" in out and "extraction failed" in out:
                    invalid = True
                    break
                fired[pid] = "exit2: " + out.strip().split("\n")[-1][:160]
            elif r.returncode == 1:
                v = [l.strip()[10:170] for l in out.splitlines() if l.strip().startswith("violated:")]
                fired[pid] = v[0] if v else "violation"
        if invalid:
            return dict(m, status="INVALID", secs=round(time.time() - t0, 1))
        return dict(m, status="KILLED" if fired else "SURVIVED", fired=fired, secs=round(time.time() - t0, 1))
    finally:
        shutil.rmtree(tmp, ignore_errors=True)


def run(args):
    ms = json.load(open(os.path.join(OUT, "mutants.json")))
    j, limit, files, ops = 14, None, None, None
    if "-j" in args:
        j = int(args[args.index("-j") + 1])
    if "--limit" in args:
        limit = int(args[args.index("--limit") + 1])
    if "--files" in args:
        files = args[args.index("--files") + 1].split(",")
    if "--ops" in args:
        ops = set(args[args.index("--ops") + 1].split(","))
    if files:
        ms = [m for m in ms if any(f in m["file"] for f in files)]
    if ops:
        ms = [m for m in ms if m["op"] in ops]
    done = {}
    rp = os.path.join(OUT, "results.json")
    if os.path.exists(rp):
        done = {r["id"]: r for r in json.load(open(rp))}
    todo = [m for m in ms if m["id"] not in done]
    if limit:
        todo = todo[:limit]
    print("running %d mutants (%d already done) with %d workers" % (len(todo), len(done), j), flush=True)
    t0 = time.time()
    with ThreadPoolExecutor(max_workers=j) as ex:
        for k, r in enumerate(ex.map(run_static, todo)):
            done[r["id"]] = r
            if (k + 1) % 100 == 0:
                json.dump(list(done.values()), open(rp, "w"), ensure_ascii=False, indent=0)
                print("  %d/%d  %.0fs" % (k + 1, len(todo), time.time() - t0), flush=True)
    json.dump(list(done.values()), open(rp, "w"), ensure_ascii=False, indent=0)
    report()


def run_oracle(m, oracle):
    tmp = tempfile.mkdtemp(prefix="amo-%s-" % m["id"], dir="/tmp")
    try:
        repo = make_copy(m, tmp)
        if repo is None:
            return dict(id=m["id"], oracle="STALE")
        os.makedirs(os.path.join(repo, "tests"), exist_ok=True)
        shutil.copy(oracle, os.path.join(repo, "tests", "oracle.rs"))
        env = dict(os.environ, CARGO_NET_OFFLINE="true", CARGO_TARGET_DIR=os.environ.get("AUTOMUT_TARGET", "/tmp/automut-target-%d" % (hash(m["id"]) % 14)))
        try:
            r = subprocess.run(["cargo", "test", "--offline", "--test", "oracle", "--", "--test-threads", "2"], cwd=repo, env=env, capture_output=True, text=True, timeout=300)
            out = r.stdout + r.stderr
        except subprocess.TimeoutExpired:
            return dict(id=m["id"], oracle="TIMEOUT", failed=["timeout"])
        if "error[" in out or "could not compile" in out:
            return dict(id=m["id"], oracle="NOBUILD")
        failed = sorted(set(re.findall(r"test (oracle_c\d\d)\S* \.\.\. FAILED", out)))
        msg = re.findall(r"panicked at [^\n]*\n([^\n]*)", out)
        return dict(id=m["id"], oracle="FAIL" if failed else "PASS", failed=failed, msg=[x[:200] for x in msg[:2]])
    finally:
        shutil.rmtree(tmp, ignore_errors=True)


def triage(args):
    oracle = args[args.index("--oracle") + 1]
    j = int(args[args.index("-j") + 1]) if "-j" in args else 7
    res = json.load(open(os.path.join(OUT, "results.json")))
    surv = [r for r in res if r["status"] == "SURVIVED"]
    tp = os.path.join(OUT, "triage.json")
    done = {r["id"]: r for r in json.load(open(tp))} if os.path.exists(tp) else {}
    todo = [m for m in surv if m["id"] not in done]
    if "--limit" in args:
        todo = todo[:int(args[args.index("--limit") + 1])]
    print("oracle triage of %d survivors (%d done)" % (len(todo), len(done)), flush=True)

    def work(m):
        # one target dir per worker slot to keep incremental builds
        return run_oracle(m, oracle)
    with ThreadPoolExecutor(max_workers=j) as ex:
        for k, r in enumerate(ex.map(work, todo)):
            done[r["id"]] = r
            if (k + 1) % 20 == 0:
                json.dump(list(done.values()), open(tp, "w"), ensure_ascii=False, indent=0)
                print("  %d/%d" % (k + 1, len(todo)), flush=True)
    json.dump(list(done.values()), open(tp, "w"), ensure_ascii=False, indent=0)
    report()


def report():
    rp = os.path.join(OUT, "results.json")
    if not os.path.exists(rp):
        print("no results")
        return
    res = json.load(open(rp))
    by = {}
    for r in res:
        by[r["status"]] = by.get(r["status"], 0) + 1
    print("static:", by)
    tp = os.path.join(OUT, "triage.json")
    tri = {r["id"]: r for r in json.load(open(tp))} if os.path.exists(tp) else {}
    surv = [r for r in res if r["status"] == "SURVIVED"]
    gaps = [(r, tri[r["id"]]) for r in surv if tri.get(r["id"], {}).get("oracle") in ("FAIL", "TIMEOUT")]
    print("survivors: %d; triaged: %d; killed by the dynamic oracle (= real gaps): %d" % (len(surv), sum(1 for r in surv if r["id"] in tri), len(gaps)))
    byf = {}
    for r, t in gaps:
        byf.setdefault(r["file"], []).append((r, t))
    for f_, items in sorted(byf.items()):
        print("==", f_)
        for r, t in sorted(items, key=lambda x: x[0]["line"]):
            print("  L%-5d %-5s %s  ->  %s   [%s] %s" % (r["line"], r["op"], r["old"].strip()[:70], r["new"].strip()[:70], ",".join(t.get("failed", [])), (t.get("msg") or [""])[0][:100]))


if __name__ == "__main__":
    a = sys.argv[1:]
    if not a:
        print(__doc__)
    elif a[0] == "gen":
        gen()
    elif a[0] == "run":
        run(a[1:])
    elif a[0] == "triage":
        triage(a[1:])
    elif a[0] == "report":
        report()
