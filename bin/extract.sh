#!/bin/bash
# extract.sh <repo_dir> <out_dir> [cargo feature args...]
# Runs the mirfacts driver over <repo_dir> (lib target) with a fresh target dir;
# writes <out_dir>/narsese.json.  Nothing of the repo is executed.  The crate is type-checked with --cfg arcj137442_narsese_rs_verif,
# which compiles the repo's verification hooks in (one expansion of each inline-Narsese macro, see MANIFEST.hooks).
set -u
REPO="$1"; OUT="$2"; shift 2
DRV=/verif/engines/mirfacts/target/release/mirfacts
[ -x "$DRV" ] || { echo "mirfacts driver not built (run MANIFEST.setup_cmd)" >&2; exit 2; }
SYSROOT=$(rustc +nightly --print sysroot)
TGT=$(mktemp -d /tmp/mirfacts-target.XXXXXX)
trap 'rm -rf "$TGT"' EXIT
mkdir -p "$OUT"
cd "$REPO" || exit 2
CARGO_NET_OFFLINE=true LD_LIBRARY_PATH="$SYSROOT/lib" \
RUSTFLAGS="-Zmir-opt-level=0 -Coverflow-checks=on -Awarnings --cfg arcj137442_narsese_rs_verif" \
RUSTC_WORKSPACE_WRAPPER="$DRV" MIRFACTS_OUT="$OUT" CARGO_TARGET_DIR="$TGT" \
cargo +nightly check --offline --lib "$@" >"$OUT/cargo.log" 2>&1
rc=$?
if [ $rc -ne 0 ]; then echo "cargo check failed (see $OUT/cargo.log)" >&2; tail -30 "$OUT/cargo.log" >&2; exit 2; fi
[ -s "$OUT/narsese.json" ] || { echo "fact file missing" >&2; exit 2; }
exit 0
