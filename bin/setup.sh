#!/bin/bash
# Builds the fact-extraction driver offline (zero cargo dependencies; nightly + rustc-dev are pre-installed).
set -e
cd "$(dirname "$0")/../engines/mirfacts"
CARGO_NET_OFFLINE=true cargo +nightly build --release --offline
test -x target/release/mirfacts
mkdir -p ../../.cache ../../evidence
echo "setup ok"
