#!/bin/bash
# ctl.sh <control id> [Cnn ...]: run checks against a persistent scratch copy of /repo with controls/<id>/patch.diff applied (dev loop; the
# fact cache of the copy is kept under /tmp/ctl/<id>/cache so that re-runs after a rule edit are fast).  `ctl.sh --clean` removes the copies.
V=$(cd "$(dirname "$0")/.." && pwd)
if [ "$1" = "--clean" ]; then rm -rf /tmp/ctl; exit 0; fi
id=$1; shift
d=/tmp/ctl/$id
if [ ! -d $d/repo ]; then
  mkdir -p $d; rsync -a --exclude target --exclude .git /repo/ $d/repo/
  (cd $d/repo && patch -p1 -s -i $V/controls/$id/patch.diff) || exit 3
fi
props=${@:-C01 C02 C03 C04 C05 C06 C07 C08 C09 C10 C11 C12 C13 C14 C15 C16 C17}
for p in $props; do
  out=$(VERIF_TIER=quick VERIF_NO_BATTERY=1 VERIF_REPO=$d/repo VERIF_CACHE_DIR=$d/cache VERIF_EVIDENCE_DIR=$d/ev VERIF_REPLAY_DIR=$d/rp $V/checks/check $p --tier quick 2>&1)
  rc=$?
  echo "== $id $p rc=$rc"
  [ $rc -ne 0 ] && echo "$out" | grep -E "violated:|Traceback|Error|ANCHOR|IDIOM" | cut -c1-${CTL_W:-400}
done
exit 0
