//! Minimal JSON value + writer (no dependencies).
use std::fmt::Write;

#[derive(Clone, Debug)]
pub enum J {
    Null,
    Bool(bool),
    Int(i128),
    Str(String),
    Arr(Vec<J>),
    Obj(Vec<(String, J)>),
}

impl J {
    pub fn s(x: impl Into<String>) -> J {
        J::Str(x.into())
    }
    pub fn obj() -> J {
        J::Obj(Vec::new())
    }
    pub fn k(kind: &str) -> J {
        J::Obj(vec![("k".to_string(), J::s(kind))])
    }
    pub fn with(mut self, key: &str, v: J) -> J {
        if let J::Obj(ref mut o) = self {
            o.push((key.to_string(), v));
        }
        self
    }
    pub fn set(&mut self, key: &str, v: J) {
        if let J::Obj(ref mut o) = self {
            o.push((key.to_string(), v));
        }
    }
    pub fn write(&self, out: &mut String) {
        match self {
            J::Null => out.push_str("null"),
            J::Bool(b) => out.push_str(if *b { "true" } else { "false" }),
            J::Int(i) => {
                let _ = write!(out, "{}", i);
            }
            J::Str(s) => write_str(s, out),
            J::Arr(a) => {
                out.push('[');
                for (i, x) in a.iter().enumerate() {
                    if i > 0 {
                        out.push(',');
                    }
                    x.write(out);
                }
                out.push(']');
            }
            J::Obj(o) => {
                out.push('{');
                for (i, (k, v)) in o.iter().enumerate() {
                    if i > 0 {
                        out.push(',');
                    }
                    write_str(k, out);
                    out.push(':');
                    v.write(out);
                }
                out.push('}');
            }
        }
    }
}

fn write_str(s: &str, out: &mut String) {
    out.push('"');
    for c in s.chars() {
        match c {
            '"' => out.push_str("\\\""),
            '\\' => out.push_str("\\\\"),
            '\n' => out.push_str("\\n"),
            '\r' => out.push_str("\\r"),
            '\t' => out.push_str("\\t"),
            c if (c as u32) < 0x20 => {
                let _ = write!(out, "\\u{:04x}", c as u32);
            }
            c => out.push(c),
        }
    }
    out.push('"');
}

impl From<bool> for J {
    fn from(b: bool) -> J {
        J::Bool(b)
    }
}
impl From<usize> for J {
    fn from(b: usize) -> J {
        J::Int(b as i128)
    }
}
impl From<&str> for J {
    fn from(b: &str) -> J {
        J::Str(b.to_string())
    }
}
impl From<String> for J {
    fn from(b: String) -> J {
        J::Str(b)
    }
}
impl From<Vec<J>> for J {
    fn from(b: Vec<J>) -> J {
        J::Arr(b)
    }
}
impl<T: Into<J>> From<Option<T>> for J {
    fn from(b: Option<T>) -> J {
        match b {
            Some(x) => x.into(),
            None => J::Null,
        }
    }
}
