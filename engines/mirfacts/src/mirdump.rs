//! MIR bodies (opt-level 0) as JSON: CFG, resolved callees, field names, panic edges.
use crate::json::J;
use crate::span_json;
use rustc_hir::def::DefKind;
use rustc_middle::mir::{self, *};
use rustc_middle::ty::{self, Instance, Ty, TyCtxt, TypingEnv};
use rustc_span::def_id::DefId;

struct Cx<'a, 'tcx> {
    tcx: TyCtxt<'tcx>,
    body: &'a Body<'tcx>,
    did: DefId,
    env: TypingEnv<'tcx>,
}

fn line_of<'tcx>(tcx: TyCtxt<'tcx>, span: rustc_span::Span) -> i128 {
    let sm = tcx.sess.source_map();
    sm.lookup_char_pos(span.source_callsite().lo()).line as i128
}

fn ty_s<'tcx>(t: Ty<'tcx>) -> String {
    format!("{}", t)
}

fn field_name<'tcx>(cx: &Cx<'_, 'tcx>, base_ty: Ty<'tcx>, variant: Option<rustc_abi::VariantIdx>, f: rustc_abi::FieldIdx) -> String {
    match base_ty.kind() {
        ty::Adt(adt, _) => {
            let v = match variant {
                Some(v) => adt.variant(v),
                None => {
                    if adt.is_enum() {
                        return format!("{}", f.as_usize());
                    }
                    adt.non_enum_variant()
                }
            };
            v.fields
                .get(f)
                .map(|fd| fd.name.as_str().to_string())
                .unwrap_or_else(|| format!("{}", f.as_usize()))
        }
        _ => {
            let _ = cx;
            format!("{}", f.as_usize())
        }
    }
}

fn place_json<'tcx>(cx: &Cx<'_, 'tcx>, p: &Place<'tcx>) -> J {
    let mut proj = vec![];
    let mut pty = mir::PlaceTy::from_ty(cx.body.local_decls[p.local].ty);
    for elem in p.projection.iter() {
        let j = match elem {
            ProjectionElem::Deref => J::k("Deref"),
            ProjectionElem::Field(f, fty) => J::k("Field")
                .with("idx", J::Int(f.as_usize() as i128))
                .with("name", J::s(field_name(cx, pty.ty, pty.variant_index, f)))
                .with("of", J::s(ty_s(pty.ty)))
                .with("ty", J::s(ty_s(fty))),
            ProjectionElem::Index(l) => J::k("Index").with("local", J::Int(l.as_usize() as i128)),
            ProjectionElem::ConstantIndex { offset, min_length, from_end } => J::k("ConstantIndex")
                .with("offset", J::Int(offset as i128))
                .with("min_length", J::Int(min_length as i128))
                .with("from_end", J::Bool(from_end)),
            ProjectionElem::Subslice { from, to, from_end } => J::k("Subslice")
                .with("from", J::Int(from as i128))
                .with("to", J::Int(to as i128))
                .with("from_end", J::Bool(from_end)),
            ProjectionElem::Downcast(name, v) => {
                let vname = match pty.ty.kind() {
                    ty::Adt(adt, _) => adt.variant(v).name.as_str().to_string(),
                    _ => name.map(|s| s.as_str().to_string()).unwrap_or_default(),
                };
                J::k("Downcast")
                    .with("variant", J::s(vname))
                    .with("idx", J::Int(v.as_usize() as i128))
            }
            ProjectionElem::OpaqueCast(_) => J::k("OpaqueCast"),
            ProjectionElem::UnwrapUnsafeBinder(_) => J::k("UnwrapUnsafeBinder"),
        };
        proj.push(j);
        pty = pty.projection_ty(cx.tcx, elem);
    }
    J::obj()
        .with("local", J::Int(p.local.as_usize() as i128))
        .with("proj", J::Arr(proj))
        .with("ty", J::s(ty_s(pty.ty)))
}

fn fn_json<'tcx>(cx: &Cx<'_, 'tcx>, def: DefId, args: ty::GenericArgsRef<'tcx>) -> J {
    let tcx = cx.tcx;
    let mut j = J::obj()
        .with("def", J::s(tcx.def_path_str(def)))
        .with("def_with_args", J::s(tcx.def_path_str_with_args(def, args)))
        .with("local", J::Bool(def.is_local()))
        .with("name", J::s(tcx.opt_item_name(def).map(|s| s.as_str().to_string()).unwrap_or_default()));
    // trait method?
    if let Some(tr) = tcx.trait_of_assoc(def) {
        j.set("trait", J::s(tcx.def_path_str(tr)));
        if let Some(self_ty) = args.types().next() {
            j.set("self_ty", J::s(ty_s(self_ty)));
        }
    } else if let Some(imp) = tcx.inherent_impl_of_assoc(def) {
        let self_ty = tcx.type_of(imp).instantiate_identity().skip_norm_wip();
        j.set("impl_self_ty", J::s(ty_s(self_ty)));
    }
    // resolve through trait selection where possible
    let resolved = Instance::try_resolve(tcx, cx.env, def, args).ok().flatten();
    match resolved {
        Some(inst) => {
            let rd = inst.def_id();
            j.set("resolved", J::s(tcx.def_path_str(rd)));
            j.set("resolved_local", J::Bool(rd.is_local()));
            j.set("resolved_kind", J::s(format!("{:?}", std::mem::discriminant(&inst.def)).replace("Discriminant", "")));
            j.set(
                "resolved_shim",
                J::s(match inst.def {
                    ty::InstanceKind::Item(_) => "item",
                    ty::InstanceKind::Virtual(..) => "virtual",
                    ty::InstanceKind::ClosureOnceShim { .. } => "closure_once",
                    ty::InstanceKind::FnPtrShim(..) => "fnptr",
                    ty::InstanceKind::DropGlue(..) => "drop",
                    ty::InstanceKind::CloneShim(..) => "clone",
                    ty::InstanceKind::Intrinsic(..) => "intrinsic",
                    _ => "other",
                }),
            );
        }
        None => j.set("resolved", J::Null),
    }
    j
}

fn const_json<'tcx>(cx: &Cx<'_, 'tcx>, c: &ConstOperand<'tcx>) -> J {
    let tcx = cx.tcx;
    let ty = c.const_.ty();
    let mut j = J::k("Const").with("ty", J::s(ty_s(ty)));
    match *ty.kind() {
        ty::FnDef(def, args) => {
            j.set("fn", fn_json(cx, def, args));
            return j;
        }
        ty::Closure(def, _) => {
            j.set("closure", J::s(tcx.def_path_str(def)));
            return j;
        }
        _ => {}
    }
    // reference to a named const / static / promoted
    if let mir::Const::Unevaluated(uv, _) = c.const_ {
        j.set("unevaluated", J::s(tcx.def_path_str(uv.def)));
        if let Some(p) = uv.promoted {
            j.set("promoted", J::Int(p.as_usize() as i128));
        }
    }
    let val = c.const_.eval(tcx, cx.env, c.span).ok();
    if let Some(v) = val {
        match *ty.kind() {
            ty::Bool | ty::Char | ty::Int(_) | ty::Uint(_) => {
                if let Some(si) = v.try_to_scalar_int() {
                    let size = si.size();
                    let bits = si.to_bits(size);
                    match *ty.kind() {
                        ty::Bool => j.set("v", J::Bool(bits != 0)),
                        ty::Char => j.set(
                            "v",
                            J::s(char::from_u32(bits as u32).map(|c| c.to_string()).unwrap_or_default()),
                        ),
                        ty::Int(_) => {
                            let sh = 128 - size.bits();
                            let sv = ((bits as i128) << sh) >> sh;
                            j.set("v", J::Int(sv));
                        }
                        _ => j.set("v", J::Int(bits as i128)),
                    }
                }
            }
            ty::Float(_) => {
                if let Some(si) = v.try_to_scalar_int() {
                    let size = si.size();
                    let bits = si.to_bits(size);
                    let f = if size.bits() == 64 {
                        f64::from_bits(bits as u64)
                    } else {
                        f32::from_bits(bits as u32) as f64
                    };
                    j.set("v", J::s(format!("{:?}", f)));
                }
            }
            ty::Ref(_, inner, _) if inner.is_str() => {
                if let Some(bytes) = v.try_get_slice_bytes_for_diagnostics(tcx) {
                    j.set("v", J::s(String::from_utf8_lossy(bytes).to_string()));
                }
            }
            _ => {}
        }
        if let Some(mir::interpret::Scalar::Ptr(ptr, _)) = v.try_to_scalar() {
            // pointer to a static?
            let alloc_id = ptr.provenance.alloc_id();
            if let Some(mir::interpret::GlobalAlloc::Static(sdid)) = tcx.try_get_global_alloc(alloc_id) {
                j.set("static", J::s(tcx.def_path_str(sdid)));
            }
        }
    }
    j
}

fn operand_json<'tcx>(cx: &Cx<'_, 'tcx>, o: &Operand<'tcx>) -> J {
    match o {
        Operand::Copy(p) => J::k("Copy").with("place", place_json(cx, p)),
        Operand::Move(p) => J::k("Move").with("place", place_json(cx, p)),
        Operand::Constant(c) => const_json(cx, c),
        Operand::RuntimeChecks(rc) => J::k("RuntimeChecks").with("which", J::s(format!("{:?}", rc))),
    }
}

fn rvalue_json<'tcx>(cx: &Cx<'_, 'tcx>, r: &Rvalue<'tcx>) -> J {
    match r {
        Rvalue::Use(o, _) => J::k("Use").with("op", operand_json(cx, o)),
        Rvalue::Repeat(o, n) => J::k("Repeat").with("op", operand_json(cx, o)).with("n", J::s(format!("{}", n))),
        Rvalue::Ref(_, bk, p) => J::k("Ref")
            .with("mut", J::Bool(matches!(bk, BorrowKind::Mut { .. })))
            .with("bk", J::s(format!("{:?}", bk)))
            .with("place", place_json(cx, p)),
        Rvalue::ThreadLocalRef(d) => J::k("ThreadLocalRef").with("def", J::s(cx.tcx.def_path_str(*d))),
        Rvalue::RawPtr(k, p) => J::k("RawPtr")
            .with("kind", J::s(format!("{:?}", k)))
            .with("place", place_json(cx, p)),
        Rvalue::Cast(k, o, t) => J::k("Cast")
            .with("kind", J::s(format!("{:?}", k)))
            .with("op", operand_json(cx, o))
            .with("ty", J::s(ty_s(*t))),
        Rvalue::BinaryOp(op, box (a, b)) => J::k("BinaryOp")
            .with("op", J::s(format!("{:?}", op)))
            .with("l", operand_json(cx, a))
            .with("r", operand_json(cx, b)),
        Rvalue::UnaryOp(op, a) => J::k("UnaryOp")
            .with("op", J::s(format!("{:?}", op)))
            .with("e", operand_json(cx, a)),
        Rvalue::Discriminant(p) => J::k("Discriminant").with("place", place_json(cx, p)),
        Rvalue::Aggregate(box kind, ops) => {
            let mut j = J::k("Aggregate");
            match kind {
                AggregateKind::Array(t) => {
                    j.set("agg", J::s("Array"));
                    j.set("ty", J::s(ty_s(*t)));
                }
                AggregateKind::Tuple => j.set("agg", J::s("Tuple")),
                AggregateKind::Adt(did, vidx, _, _, _) => {
                    let adt = cx.tcx.adt_def(*did);
                    let v = adt.variant(*vidx);
                    j.set("agg", J::s("Adt"));
                    j.set("adt", J::s(cx.tcx.def_path_str(*did)));
                    j.set("variant", J::s(v.name.as_str()));
                    j.set("variant_idx", J::Int(vidx.as_usize() as i128));
                    j.set(
                        "field_names",
                        J::Arr(v.fields.iter().map(|f| J::s(f.name.as_str())).collect()),
                    );
                }
                AggregateKind::Closure(did, _) => {
                    j.set("agg", J::s("Closure"));
                    j.set("def", J::s(cx.tcx.def_path_str(*did)));
                }
                AggregateKind::Coroutine(did, _) | AggregateKind::CoroutineClosure(did, _) => {
                    j.set("agg", J::s("Coroutine"));
                    j.set("def", J::s(cx.tcx.def_path_str(*did)));
                }
                AggregateKind::RawPtr(..) => j.set("agg", J::s("RawPtr")),
            }
            j.with("ops", J::Arr(ops.iter().map(|o| operand_json(cx, o)).collect()))
        }
        Rvalue::CopyForDeref(p) => J::k("CopyForDeref").with("place", place_json(cx, p)),
        Rvalue::WrapUnsafeBinder(o, _) => J::k("WrapUnsafeBinder").with("op", operand_json(cx, o)),
    }
}

fn unwind_json(u: &UnwindAction) -> J {
    match u {
        UnwindAction::Cleanup(bb) => J::Int(bb.as_usize() as i128),
        _ => J::Null,
    }
}

fn assert_json<'tcx>(cx: &Cx<'_, 'tcx>, m: &AssertMessage<'tcx>) -> J {
    match m {
        AssertKind::BoundsCheck { len, index } => J::k("BoundsCheck")
            .with("len", operand_json(cx, len))
            .with("index", operand_json(cx, index)),
        AssertKind::Overflow(op, a, b) => J::k("Overflow")
            .with("op", J::s(format!("{:?}", op)))
            .with("l", operand_json(cx, a))
            .with("r", operand_json(cx, b)),
        AssertKind::OverflowNeg(a) => J::k("OverflowNeg").with("e", operand_json(cx, a)),
        AssertKind::DivisionByZero(a) => J::k("DivisionByZero").with("e", operand_json(cx, a)),
        AssertKind::RemainderByZero(a) => J::k("RemainderByZero").with("e", operand_json(cx, a)),
        AssertKind::MisalignedPointerDereference { .. } => J::k("MisalignedPointerDereference"),
        AssertKind::NullPointerDereference => J::k("NullPointerDereference"),
        AssertKind::InvalidEnumConstruction(_) => J::k("InvalidEnumConstruction"),
        other => J::k("Other").with("text", J::s(format!("{:?}", other))),
    }
}

fn body_json<'tcx>(tcx: TyCtxt<'tcx>, did: DefId, body: &Body<'tcx>, promoted: Option<usize>) -> J {
    let env = TypingEnv::post_analysis(tcx, did);
    let cx = Cx { tcx, body, did, env };
    let _ = cx.did;
    // debug names
    let mut names: Vec<Option<String>> = vec![None; body.local_decls.len()];
    let mut dbg = vec![];
    for vdi in &body.var_debug_info {
        match &vdi.value {
            VarDebugInfoContents::Place(p) => {
                if p.projection.is_empty() && names[p.local.as_usize()].is_none() {
                    names[p.local.as_usize()] = Some(vdi.name.as_str().to_string());
                }
                dbg.push(
                    J::obj()
                        .with("name", J::s(vdi.name.as_str()))
                        .with("place", place_json(&cx, p))
                        .with("arg", vdi.argument_index.map(|a| J::Int(a as i128)).into()),
                );
            }
            VarDebugInfoContents::Const(_) => {}
        }
    }
    let mut locals = vec![];
    for (l, d) in body.local_decls.iter_enumerated() {
        locals.push(
            J::obj()
                .with("ty", J::s(ty_s(d.ty)))
                .with("name", names[l.as_usize()].clone().into())
                .with("mut", J::Bool(d.mutability.is_mut())),
        );
    }
    let mut blocks = vec![];
    for (_bb, data) in body.basic_blocks.iter_enumerated() {
        let mut stmts = vec![];
        for s in &data.statements {
            let j = match &s.kind {
                StatementKind::Assign(box (p, r)) => J::k("Assign")
                    .with("place", place_json(&cx, p))
                    .with("rv", rvalue_json(&cx, r)),
                StatementKind::SetDiscriminant { place, variant_index } => J::k("SetDiscriminant")
                    .with("place", place_json(&cx, place))
                    .with("variant_idx", J::Int(variant_index.as_usize() as i128)),
                StatementKind::Intrinsic(i) => J::k("Intrinsic").with("text", J::s(format!("{:?}", i))),
                StatementKind::StorageLive(_)
                | StatementKind::StorageDead(_)
                | StatementKind::FakeRead(..)
                | StatementKind::PlaceMention(..)
                | StatementKind::AscribeUserType(..)
                | StatementKind::Coverage(..)
                | StatementKind::ConstEvalCounter
                | StatementKind::Nop => continue,
                other => J::k("Other").with("text", J::s(format!("{:?}", other))),
            };
            stmts.push(
                j.with("line", J::Int(line_of(tcx, s.source_info.span)))
                    .with("exp", J::Bool(s.source_info.span.from_expansion())),
            );
        }
        let t = data.terminator();
        let tj = match &t.kind {
            TerminatorKind::Goto { target } => J::k("Goto").with("target", J::Int(target.as_usize() as i128)),
            TerminatorKind::SwitchInt { discr, targets } => {
                let mut ts = vec![];
                for (v, bb) in targets.iter() {
                    ts.push(J::Arr(vec![J::Int(v as i128), J::Int(bb.as_usize() as i128)]));
                }
                J::k("SwitchInt")
                    .with("discr", operand_json(&cx, discr))
                    .with("targets", J::Arr(ts))
                    .with("otherwise", J::Int(targets.otherwise().as_usize() as i128))
            }
            TerminatorKind::UnwindResume => J::k("UnwindResume"),
            TerminatorKind::UnwindTerminate(_) => J::k("UnwindTerminate"),
            TerminatorKind::Return => J::k("Return"),
            TerminatorKind::Unreachable => J::k("Unreachable"),
            TerminatorKind::Drop { place, target, unwind, .. } => J::k("Drop")
                .with("place", place_json(&cx, place))
                .with("target", J::Int(target.as_usize() as i128))
                .with("unwind", unwind_json(unwind)),
            TerminatorKind::Call { func, args, destination, target, unwind, fn_span, .. } => J::k("Call")
                .with("func", operand_json(&cx, func))
                .with("args", J::Arr(args.iter().map(|a| operand_json(&cx, &a.node)).collect()))
                .with("dest", place_json(&cx, destination))
                .with("target", target.map(|t| J::Int(t.as_usize() as i128)).into())
                .with("unwind", unwind_json(unwind))
                .with("fn_line", J::Int(line_of(tcx, *fn_span))),
            TerminatorKind::TailCall { func, args, .. } => J::k("TailCall")
                .with("func", operand_json(&cx, func))
                .with("args", J::Arr(args.iter().map(|a| operand_json(&cx, &a.node)).collect())),
            TerminatorKind::Assert { cond, expected, msg, target, unwind } => J::k("Assert")
                .with("cond", operand_json(&cx, cond))
                .with("expected", J::Bool(*expected))
                .with("msg", assert_json(&cx, msg))
                .with("target", J::Int(target.as_usize() as i128))
                .with("unwind", unwind_json(unwind)),
            TerminatorKind::FalseEdge { real_target, .. } => {
                J::k("Goto").with("target", J::Int(real_target.as_usize() as i128))
            }
            TerminatorKind::FalseUnwind { real_target, .. } => {
                J::k("Goto").with("target", J::Int(real_target.as_usize() as i128))
            }
            other => J::k("Other").with("text", J::s(format!("{:?}", other))),
        };
        blocks.push(
            J::obj()
                .with("stmts", J::Arr(stmts))
                .with(
                    "term",
                    tj.with("line", J::Int(line_of(tcx, t.source_info.span)))
                        .with("exp", J::Bool(t.source_info.span.from_expansion())),
                )
                .with("cleanup", J::Bool(data.is_cleanup)),
        );
    }
    let kind = tcx.def_kind(did);
    let parent = tcx.opt_parent(did);
    let impl_of = parent.and_then(|p| {
        if matches!(tcx.def_kind(p), DefKind::Impl { .. }) {
            let self_ty = tcx.type_of(p).instantiate_identity().skip_norm_wip();
            let tref = tcx
                .impl_opt_trait_ref(p)
                .map(|t| tcx.def_path_str(t.instantiate_identity().skip_norm_wip().def_id));
            Some(
                J::obj()
                    .with("self_ty", J::s(ty_s(self_ty)))
                    .with("trait", tref.into())
                    .with("derived", J::Bool(tcx.is_automatically_derived(p))),
            )
        } else {
            None
        }
    });
    let vis = match kind {
        DefKind::Fn | DefKind::AssocFn => J::s(format!("{:?}", tcx.visibility(did))),
        _ => J::Null,
    };
    J::obj()
        .with("path", J::s(tcx.def_path_str(did)))
        .with("name", J::s(tcx.opt_item_name(did).map(|s| s.as_str().to_string()).unwrap_or_default()))
        .with("defkind", J::s(format!("{:?}", kind)))
        .with("promoted", promoted.map(|p| J::Int(p as i128)).into())
        .with("parent", parent.map(|p| J::s(tcx.def_path_str(p))).into())
        .with("impl", impl_of.into())
        .with("vis", vis)
        .with("span", span_json(tcx, tcx.def_span(did)))
        .with("arg_count", J::Int(body.arg_count as i128))
        .with("locals", J::Arr(locals))
        .with("debug", J::Arr(dbg))
        .with("blocks", J::Arr(blocks))
}

pub fn dump<'tcx>(tcx: TyCtxt<'tcx>) -> J {
    let mut out = vec![];
    for &ldid in tcx.mir_keys(()) {
        let did = ldid.to_def_id();
        let kind = tcx.def_kind(did);
        match kind {
            DefKind::Fn | DefKind::AssocFn | DefKind::Closure => {
                let body = tcx.optimized_mir(did);
                out.push(body_json(tcx, did, body, None));
                for (pi, pb) in tcx.promoted_mir(did).iter_enumerated() {
                    out.push(body_json(tcx, did, pb, Some(pi.as_usize())));
                }
            }
            DefKind::Const { .. } | DefKind::AssocConst { .. } | DefKind::Static { .. } => {
                let body = tcx.mir_for_ctfe(did);
                out.push(body_json(tcx, did, body, None));
            }
            _ => {}
        }
    }
    J::Arr(out)
}
