//! mirfacts: rustc_private driver dumping HIR + MIR + crate-level facts of the
//! analysed crate as JSON.  Used as RUSTC_WORKSPACE_WRAPPER under
//! `cargo +nightly check`.  Nothing of the analysed crate is executed.
#![feature(rustc_private)]
#![feature(box_patterns)]

extern crate rustc_abi;
extern crate rustc_ast;
extern crate rustc_driver;
extern crate rustc_hir;
extern crate rustc_interface;
extern crate rustc_middle;
extern crate rustc_span;

mod hirdump;
mod json;
mod mirdump;

use json::J;
use rustc_driver::Compilation;
use rustc_hir::def::DefKind;
use rustc_middle::ty::{self, TyCtxt};
use rustc_span::def_id::LOCAL_CRATE;

struct Cb {
    out_dir: String,
    only: Option<String>,
}

pub fn span_json<'tcx>(tcx: TyCtxt<'tcx>, span: rustc_span::Span) -> J {
    let sm = tcx.sess.source_map();
    // use the outermost call site for code from macro expansion so the line
    // always points into the crate's own sources
    let root = span.source_callsite();
    let lo = sm.lookup_char_pos(root.lo());
    let hi = sm.lookup_char_pos(root.hi());
    let file = match &lo.file.name {
        rustc_span::FileName::Real(r) => match r.local_path() {
            Some(p) => p.to_string_lossy().to_string(),
            None => format!("{:?}", lo.file.name),
        },
        other => format!("{:?}", other),
    };
    J::obj()
        .with("file", J::s(file))
        .with("line", J::Int(lo.line as i128))
        .with("col", J::Int(lo.col.0 as i128))
        .with("line_hi", J::Int(hi.line as i128))
        .with("exp", J::Bool(span.from_expansion()))
}

fn adts<'tcx>(tcx: TyCtxt<'tcx>) -> J {
    let mut out = vec![];
    for id in tcx.hir_free_items() {
        let item = tcx.hir_item(id);
        let did = item.owner_id.def_id.to_def_id();
        match tcx.def_kind(did) {
            DefKind::Struct | DefKind::Enum | DefKind::Union => {}
            _ => continue,
        }
        let adt = tcx.adt_def(did);
        let mut variants = vec![];
        for (vi, v) in adt.variants().iter_enumerated() {
            let mut fields = vec![];
            for f in v.fields.iter() {
                let fty = tcx.type_of(f.did).instantiate_identity().skip_norm_wip();
                fields.push(
                    J::obj()
                        .with("name", J::s(f.name.as_str()))
                        .with("ty", J::s(format!("{}", fty))),
                );
            }
            variants.push(
                J::obj()
                    .with("name", J::s(v.name.as_str()))
                    .with("idx", J::Int(vi.as_usize() as i128))
                    .with("ctor_kind", J::s(format!("{:?}", v.ctor_kind())))
                    .with("fields", J::Arr(fields)),
            );
        }
        out.push(
            J::obj()
                .with("path", J::s(tcx.def_path_str(did)))
                .with("kind", J::s(format!("{:?}", tcx.def_kind(did))))
                .with("span", span_json(tcx, item.span))
                .with("variants", J::Arr(variants)),
        );
    }
    J::Arr(out)
}

fn impls<'tcx>(tcx: TyCtxt<'tcx>) -> J {
    let mut out = vec![];
    for id in tcx.hir_free_items() {
        let item = tcx.hir_item(id);
        let ldid = item.owner_id.def_id;
        let did = ldid.to_def_id();
        if !matches!(tcx.def_kind(did), DefKind::Impl { .. }) {
            continue;
        }
        let self_ty = tcx.type_of(did).instantiate_identity().skip_norm_wip();
        let trait_ref = tcx.impl_opt_trait_ref(did).map(|t| {
            let t = t.instantiate_identity().skip_norm_wip();
            (tcx.def_path_str(t.def_id), format!("{}", t))
        });
        let derived = tcx.is_automatically_derived(did);
        let mut items = vec![];
        for &assoc in tcx.associated_item_def_ids(did) {
            items.push(
                J::obj()
                    .with("path", J::s(tcx.def_path_str(assoc)))
                    .with("name", J::s(tcx.opt_item_name(assoc).map(|s| s.as_str().to_string()).unwrap_or_default()))
                    .with("kind", J::s(format!("{:?}", tcx.def_kind(assoc)))),
            );
        }
        out.push(
            J::obj()
                .with("self_ty", J::s(format!("{}", self_ty)))
                .with("trait", trait_ref.as_ref().map(|t| J::s(t.0.clone())).into())
                .with("trait_ref", trait_ref.as_ref().map(|t| J::s(t.1.clone())).into())
                .with("derived", J::Bool(derived))
                .with("span", span_json(tcx, item.span))
                .with("items", J::Arr(items)),
        );
    }
    J::Arr(out)
}

fn globals<'tcx>(tcx: TyCtxt<'tcx>) -> J {
    let mut out = vec![];
    for ldid in tcx.hir_body_owners() {
        let did = ldid.to_def_id();
        let kind = tcx.def_kind(did);
        let (is_static, mutbl) = match kind {
            DefKind::Static { mutability, .. } => (true, mutability == rustc_ast::Mutability::Mut),
            DefKind::Const { .. } | DefKind::AssocConst { .. } => (false, false),
            _ => continue,
        };
        let ty = tcx.type_of(did).instantiate_identity().skip_norm_wip();
        let env = ty::TypingEnv::post_analysis(tcx, did);
        let freeze = ty.is_freeze(tcx, env);
        out.push(
            J::obj()
                .with("path", J::s(tcx.def_path_str(did)))
                .with("kind", J::s(if is_static { "static" } else { "const" }))
                .with("mutable", J::Bool(mutbl))
                .with("ty", J::s(format!("{}", ty)))
                .with("freeze", J::Bool(freeze))
                .with("span", span_json(tcx, tcx.def_span(did))),
        );
    }
    J::Arr(out)
}

impl rustc_driver::Callbacks for Cb {
    fn after_analysis<'tcx>(
        &mut self,
        _c: &rustc_interface::interface::Compiler,
        tcx: TyCtxt<'tcx>,
    ) -> Compilation {
        let krate = tcx.crate_name(LOCAL_CRATE).to_string();
        if let Some(only) = &self.only {
            if !only.split(',').any(|x| x == krate) {
                return Compilation::Continue;
            }
        }
        let t0 = std::time::Instant::now();
        let mut root = J::obj()
            .with("crate", J::s(krate.clone()))
            .with("rustc", J::s(option_env!("CFG_VERSION").unwrap_or("nightly")))
            .with("adts", adts(tcx))
            .with("impls", impls(tcx))
            .with("globals", globals(tcx))
            .with("hir", hirdump::dump(tcx))
            .with("mir", mirdump::dump(tcx));
        root.set("extract_ms", J::Int(t0.elapsed().as_millis() as i128));
        let mut s = String::with_capacity(1 << 24);
        root.write(&mut s);
        let is_test = tcx.sess.opts.test;
        let path = format!(
            "{}/{}{}.json",
            self.out_dir,
            krate,
            if is_test { ".test" } else { "" }
        );
        std::fs::create_dir_all(&self.out_dir).ok();
        // one write per process
        std::fs::write(&path, s).expect("mirfacts: cannot write fact file");
        Compilation::Continue
    }
}

fn main() {
    let mut args: Vec<String> = std::env::args().collect();
    // as RUSTC_WORKSPACE_WRAPPER: argv[1] is the path of the real rustc
    if args.len() > 1 && (args[1].ends_with("rustc") || args[1].contains("/rustc")) {
        args.remove(1);
    }
    let out_dir = std::env::var("MIRFACTS_OUT").unwrap_or_else(|_| "/tmp/mirfacts".to_string());
    let only = std::env::var("MIRFACTS_CRATE").ok();
    let mut cb = Cb { out_dir, only };
    rustc_driver::run_compiler(&args, &mut cb);
}
