//! HIR (post-expansion, name-resolved, type-checked) expression trees as JSON.
use crate::json::J;
use crate::span_json;
use rustc_hir as hir;
use rustc_hir::def::{DefKind, Res};
use rustc_middle::ty::{TyCtxt, TypeckResults};

struct Cx<'tcx> {
    tcx: TyCtxt<'tcx>,
    tr: &'tcx TypeckResults<'tcx>,
}

fn res_json<'tcx>(cx: &Cx<'tcx>, res: Res) -> J {
    match res {
        Res::Def(kind, did) => J::obj()
            .with("res", J::s("def"))
            .with("defkind", J::s(format!("{:?}", kind)))
            .with("def", J::s(cx.tcx.def_path_str(did)))
            .with(
                "parent",
                match kind {
                    // variant constructor -> variant -> enum
                    DefKind::Ctor(..) => {
                        let p = cx.tcx.parent(did);
                        J::s(cx.tcx.def_path_str(p))
                    }
                    _ => J::Null,
                },
            ),
        Res::Local(hid) => J::obj()
            .with("res", J::s("local"))
            .with("name", J::s(cx.tcx.hir_name(hid).as_str()))
            .with("hid", J::s(format!("{}", hid.local_id.as_u32()))),
        Res::SelfCtor(did) => J::obj()
            .with("res", J::s("selfctor"))
            .with("def", J::s(cx.tcx.def_path_str(did))),
        Res::SelfTyAlias { alias_to, .. } => J::obj()
            .with("res", J::s("selfty"))
            .with("def", J::s(cx.tcx.def_path_str(alias_to))),
        Res::SelfTyParam { .. } => J::obj().with("res", J::s("selftyparam")),
        Res::PrimTy(p) => J::obj().with("res", J::s("prim")).with("name", J::s(p.name_str())),
        other => J::obj().with("res", J::s(format!("{:?}", other))),
    }
}

fn qpath_text(q: &hir::QPath<'_>) -> String {
    match q {
        hir::QPath::Resolved(_, p) => p
            .segments
            .iter()
            .map(|s| s.ident.as_str().to_string())
            .collect::<Vec<_>>()
            .join("::"),
        hir::QPath::TypeRelative(_, seg) => format!("<_>::{}", seg.ident.as_str()),
    }
}

fn qpath_json<'tcx>(cx: &Cx<'tcx>, q: &hir::QPath<'tcx>, hid: hir::HirId) -> J {
    let res = cx.tr.qpath_res(q, hid);
    res_json(cx, res).with("text", J::s(qpath_text(q)))
}

fn lit_json(lit: &hir::Lit, negated: bool) -> J {
    use rustc_ast::LitKind::*;
    let j = match &lit.node {
        Str(s, _) => J::obj().with("lit", J::s("str")).with("v", J::s(s.as_str())),
        Char(c) => J::obj().with("lit", J::s("char")).with("v", J::s(c.to_string())),
        Int(v, _) => J::obj().with("lit", J::s("int")).with("v", J::Int(v.get() as i128)),
        Float(s, _) => J::obj().with("lit", J::s("float")).with("v", J::s(s.as_str())),
        Bool(b) => J::obj().with("lit", J::s("bool")).with("v", J::Bool(*b)),
        Byte(b) => J::obj().with("lit", J::s("byte")).with("v", J::Int(*b as i128)),
        other => J::obj().with("lit", J::s("other")).with("v", J::s(format!("{:?}", other))),
    };
    j.with("neg", J::Bool(negated))
}

fn patexpr_json<'tcx>(cx: &Cx<'tcx>, e: &hir::PatExpr<'tcx>) -> J {
    match &e.kind {
        hir::PatExprKind::Lit { lit, negated } => J::k("Lit").with("lit", lit_json(lit, *negated)),
        hir::PatExprKind::Path(q) => J::k("Path").with("path", qpath_json(cx, q, e.hir_id)),
    }
}

fn pat_json<'tcx>(cx: &Cx<'tcx>, p: &hir::Pat<'tcx>) -> J {
    use hir::PatKind::*;
    let j = match &p.kind {
        Missing => J::k("Missing"),
        Wild => J::k("Wild"),
        Never => J::k("Never"),
        Binding(mode, hid, ident, sub) => J::k("Binding")
            .with("name", J::s(ident.as_str()))
            .with("hid", J::s(format!("{}", hid.local_id.as_u32())))
            .with("mode", J::s(format!("{:?}", mode)))
            .with("sub", sub.map(|s| pat_json(cx, s)).into()),
        Struct(q, fields, rest) => J::k("Struct")
            .with("path", qpath_json(cx, q, p.hir_id))
            .with(
                "fields",
                J::Arr(
                    fields
                        .iter()
                        .map(|f| {
                            J::obj()
                                .with("name", J::s(f.ident.as_str()))
                                .with("pat", pat_json(cx, f.pat))
                        })
                        .collect(),
                ),
            )
            .with("rest", J::Bool(rest.is_some())),
        TupleStruct(q, pats, dd) => J::k("TupleStruct")
            .with("path", qpath_json(cx, q, p.hir_id))
            .with("pats", J::Arr(pats.iter().map(|x| pat_json(cx, x)).collect()))
            .with("ddpos", dd.as_opt_usize().map(|x| J::Int(x as i128)).into()),
        Or(pats) => J::k("Or").with("pats", J::Arr(pats.iter().map(|x| pat_json(cx, x)).collect())),
        Tuple(pats, dd) => J::k("Tuple")
            .with("pats", J::Arr(pats.iter().map(|x| pat_json(cx, x)).collect()))
            .with("ddpos", dd.as_opt_usize().map(|x| J::Int(x as i128)).into()),
        Box(x) => J::k("Box").with("pat", pat_json(cx, x)),
        Deref(x) => J::k("Deref").with("pat", pat_json(cx, x)),
        Ref(x, _, m) => J::k("Ref")
            .with("pat", pat_json(cx, x))
            .with("mut", J::Bool(m.is_mut())),
        Expr(e) => J::k("Expr").with("expr", patexpr_json(cx, e)),
        Guard(x, g) => J::k("Guard").with("pat", pat_json(cx, x)).with("guard", expr_json(cx, g)),
        Range(lo, hi, end) => J::k("Range")
            .with("lo", lo.map(|e| patexpr_json(cx, e)).into())
            .with("hi", hi.map(|e| patexpr_json(cx, e)).into())
            .with("inclusive", J::Bool(matches!(end, hir::RangeEnd::Included))),
        Slice(a, m, b) => J::k("Slice")
            .with("before", J::Arr(a.iter().map(|x| pat_json(cx, x)).collect()))
            .with("mid", m.map(|x| pat_json(cx, x)).into())
            .with("after", J::Arr(b.iter().map(|x| pat_json(cx, x)).collect())),
        Err(_) => J::k("Err"),
    };
    j.with("line", J::Int(line_of(cx, p.span)))
}

fn line_of<'tcx>(cx: &Cx<'tcx>, span: rustc_span::Span) -> i128 {
    let sm = cx.tcx.sess.source_map();
    sm.lookup_char_pos(span.source_callsite().lo()).line as i128
}

fn block_json<'tcx>(cx: &Cx<'tcx>, b: &hir::Block<'tcx>) -> J {
    let mut stmts = vec![];
    for s in b.stmts {
        let j = match &s.kind {
            hir::StmtKind::Let(l) => J::k("Let")
                .with("pat", pat_json(cx, l.pat))
                .with("init", l.init.map(|e| expr_json(cx, e)).into())
                .with("els", l.els.map(|b| block_json(cx, b)).into()),
            hir::StmtKind::Item(_) => J::k("Item"),
            hir::StmtKind::Expr(e) => J::k("Expr").with("expr", expr_json(cx, e)),
            hir::StmtKind::Semi(e) => J::k("Semi").with("expr", expr_json(cx, e)),
        };
        stmts.push(j.with("line", J::Int(line_of(cx, s.span))));
    }
    J::k("Block")
        .with("stmts", J::Arr(stmts))
        .with("expr", b.expr.map(|e| expr_json(cx, e)).into())
        .with(
            "unsafe",
            J::Bool(matches!(b.rules, hir::BlockCheckMode::UnsafeBlock(_))),
        )
}

fn expr_json<'tcx>(cx: &Cx<'tcx>, e: &hir::Expr<'tcx>) -> J {
    use hir::ExprKind::*;
    let j = match &e.kind {
        DropTemps(inner) => return expr_json(cx, inner),
        Use(inner, _) => return expr_json(cx, inner),
        ConstBlock(_) => J::k("ConstBlock"),
        Array(xs) => J::k("Array").with("elems", J::Arr(xs.iter().map(|x| expr_json(cx, x)).collect())),
        Call(f, args) => J::k("Call")
            .with("f", expr_json(cx, f))
            .with("args", J::Arr(args.iter().map(|x| expr_json(cx, x)).collect())),
        MethodCall(seg, recv, args, _) => J::k("MethodCall")
            .with("method", J::s(seg.ident.as_str()))
            .with(
                "def",
                cx.tr
                    .type_dependent_def_id(e.hir_id)
                    .map(|d| J::s(cx.tcx.def_path_str(d)))
                    .into(),
            )
            .with("recv", expr_json(cx, recv))
            .with("args", J::Arr(args.iter().map(|x| expr_json(cx, x)).collect())),
        Tup(xs) => J::k("Tup").with("elems", J::Arr(xs.iter().map(|x| expr_json(cx, x)).collect())),
        Binary(op, a, b) => J::k("Binary")
            .with("op", J::s(op.node.as_str()))
            .with("l", expr_json(cx, a))
            .with("r", expr_json(cx, b)),
        Unary(op, a) => J::k("Unary")
            .with("op", J::s(op.as_str()))
            .with("e", expr_json(cx, a)),
        Lit(l) => J::k("Lit").with("lit", lit_json(l, false)),
        Cast(a, _) => J::k("Cast").with("e", expr_json(cx, a)),
        Type(a, _) => J::k("Type").with("e", expr_json(cx, a)),
        Let(l) => J::k("LetExpr")
            .with("pat", pat_json(cx, l.pat))
            .with("init", expr_json(cx, l.init)),
        If(c, t, el) => J::k("If")
            .with("cond", expr_json(cx, c))
            .with("then", expr_json(cx, t))
            .with("else", el.map(|x| expr_json(cx, x)).into()),
        Loop(b, _, src, _) => J::k("Loop")
            .with("source", J::s(format!("{:?}", src)))
            .with("body", block_json(cx, b)),
        Match(scrut, arms, src) => J::k("Match")
            .with("source", J::s(format!("{:?}", src)))
            .with("scrut", expr_json(cx, scrut))
            .with(
                "arms",
                J::Arr(
                    arms.iter()
                        .map(|a| {
                            J::obj()
                                .with("pat", pat_json(cx, a.pat))
                                .with("guard", a.guard.map(|g| expr_json(cx, g)).into())
                                .with("body", expr_json(cx, a.body))
                                .with("line", J::Int(line_of(cx, a.span)))
                        })
                        .collect(),
                ),
            ),
        Closure(c) => {
            let body = cx.tcx.hir_body(c.body);
            // closures share the typeck results of their owner
            J::k("Closure")
                .with("def", J::s(cx.tcx.def_path_str(c.def_id.to_def_id())))
                .with("params", J::Arr(body.params.iter().map(|p| pat_json(cx, p.pat)).collect()))
                .with("body", expr_json(cx, body.value))
        }
        Block(b, _) => block_json(cx, b),
        Assign(a, b, _) => J::k("Assign").with("l", expr_json(cx, a)).with("r", expr_json(cx, b)),
        AssignOp(op, a, b) => J::k("AssignOp")
            .with("op", J::s(op.node.as_str()))
            .with("l", expr_json(cx, a))
            .with("r", expr_json(cx, b)),
        Field(a, ident) => J::k("Field").with("e", expr_json(cx, a)).with("name", J::s(ident.as_str())),
        Index(a, b, _) => J::k("Index").with("e", expr_json(cx, a)).with("idx", expr_json(cx, b)),
        Path(q) => J::k("Path").with("path", qpath_json(cx, q, e.hir_id)),
        AddrOf(_, m, a) => J::k("AddrOf").with("mut", J::Bool(m.is_mut())).with("e", expr_json(cx, a)),
        Break(_, v) => J::k("Break").with("e", v.map(|x| expr_json(cx, x)).into()),
        Continue(_) => J::k("Continue"),
        Ret(v) => J::k("Ret").with("e", v.map(|x| expr_json(cx, x)).into()),
        Become(a) => J::k("Become").with("e", expr_json(cx, a)),
        InlineAsm(_) => J::k("InlineAsm"),
        OffsetOf(..) => J::k("OffsetOf"),
        Struct(q, fields, tail) => J::k("Struct")
            .with("path", qpath_json(cx, q, e.hir_id))
            .with(
                "fields",
                J::Arr(
                    fields
                        .iter()
                        .map(|f| {
                            J::obj()
                                .with("name", J::s(f.ident.as_str()))
                                .with("expr", expr_json(cx, f.expr))
                        })
                        .collect(),
                ),
            )
            .with(
                "base",
                match tail {
                    hir::StructTailExpr::Base(b) => expr_json(cx, b),
                    _ => J::Null,
                },
            ),
        Repeat(a, _) => J::k("Repeat").with("e", expr_json(cx, a)),
        Yield(a, _) => J::k("Yield").with("e", expr_json(cx, a)),
        UnsafeBinderCast(_, a, _) => J::k("UnsafeBinderCast").with("e", expr_json(cx, a)),
        Err(_) => J::k("Err"),
    };
    let ty = cx.tr.expr_ty_opt(e).map(|t| format!("{}", t));
    j.with("ty", ty.into())
        .with("line", J::Int(line_of(cx, e.span)))
        .with("exp", J::Bool(e.span.from_expansion()))
}

pub fn dump<'tcx>(tcx: TyCtxt<'tcx>) -> J {
    let mut out = vec![];
    for ldid in tcx.hir_body_owners() {
        let did = ldid.to_def_id();
        let kind = tcx.def_kind(did);
        if matches!(kind, DefKind::Closure | DefKind::InlineConst | DefKind::AnonConst) {
            continue; // nested in the owner's tree
        }
        let Some(body) = tcx.hir_maybe_body_owned_by(ldid) else { continue };
        let tr = tcx.typeck(ldid);
        let cx = Cx { tcx, tr };
        let params = body.params.iter().map(|p| pat_json(&cx, p.pat)).collect();
        let parent = tcx.opt_parent(did).map(|p| tcx.def_path_str(p));
        let impl_of = tcx.opt_parent(did).and_then(|p| {
            if matches!(tcx.def_kind(p), DefKind::Impl { .. }) {
                let self_ty = tcx.type_of(p).instantiate_identity().skip_norm_wip();
                let tref = tcx
                    .impl_opt_trait_ref(p)
                    .map(|t| tcx.def_path_str(t.instantiate_identity().skip_norm_wip().def_id));
                Some(
                    J::obj()
                        .with("self_ty", J::s(format!("{}", self_ty)))
                        .with("trait", tref.into())
                        .with("derived", J::Bool(tcx.is_automatically_derived(p))),
                )
            } else {
                None
            }
        });
        out.push(
            J::obj()
                .with("path", J::s(tcx.def_path_str(did)))
                .with("name", J::s(tcx.opt_item_name(did).map(|s| s.as_str().to_string()).unwrap_or_default()))
                .with("defkind", J::s(format!("{:?}", kind)))
                .with("parent", parent.into())
                .with("impl", impl_of.into())
                .with("span", span_json(tcx, tcx.def_span(did)))
                .with("params", J::Arr(params))
                .with("body", expr_json(&cx, body.value)),
        );
    }
    J::Arr(out)
}
