//! Positive examples for rules whose expected violation count on the real tree is zero.
//! Never executed; only type-checked by the fact-extraction driver.
#![allow(dead_code, static_mut_refs)]
use std::cell::Cell;
use std::collections::HashSet;
use std::hash::{Hash, Hasher};

/// H-ORDER: feeds the hasher sink inside a hash-set iteration
pub fn canary_hash_in_set_order<H: Hasher>(set: &HashSet<String>, state: &mut H) {
    for x in set {
        x.hash(state);
    }
}

/// H-ORDER: internal iteration -- the sink is captured by a closure handed to `for_each` together with the hash-set iterator
pub fn canary_for_each_in_set_order<H: Hasher>(set: &HashSet<String>, state: &mut H) {
    set.iter().for_each(|x| x.hash(state));
}

/// H-COMB negative: accumulator updated by a non-commutative operation
pub fn canary_non_commutative<'a, H: Hasher>(items: impl Iterator<Item = &'a String>, state: &mut H) {
    let mut acc: u64 = 0;
    for x in items {
        let mut h = std::collections::hash_map::DefaultHasher::new();
        x.hash(&mut h);
        acc = acc.rotate_left(5).wrapping_add(h.finish());
    }
    state.write_u64(acc);
}

/// H-COMB positive: a proper unordered combiner
pub fn canary_commutative<'a, H: Hasher>(items: impl Iterator<Item = &'a String>, state: &mut H) {
    let mut acc: u64 = 0;
    for x in items {
        let mut h = std::collections::hash_map::DefaultHasher::new();
        x.hash(&mut h);
        acc = acc.wrapping_add(h.finish());
    }
    state.write_u64(acc);
}

/// S-FREEZE: shared mutable state
pub static mut CANARY_COUNTER: usize = 0;
pub struct CanaryCell {
    pub hits: Cell<usize>,
}

/// P-INV: one of each panic-edge kind
pub fn canary_panics(v: &[u8], i: usize, o: Option<u8>, a: usize, b: usize) -> u8 {
    let x = v[i]; // bounds check
    let y = o.unwrap(); // may-panic API
    let z = (a - b) as u8; // overflow(Sub)
    if x == 7 {
        panic!("explicit");
    }
    let s = &v[a..b]; // range index
    x + y + z + s[0]
}

/// P-GUARD: a guarded index whose guard signature the extractor must see
pub fn canary_guarded(v: &[u8], i: usize) -> u8 {
    if i < v.len() {
        v[i]
    } else {
        0
    }
}

/// L-PROGRESS: a loop without any progress witness
pub fn canary_spin(flag: &dyn Fn() -> bool) -> usize {
    let mut n = 0usize;
    while flag() {
        n = n.max(1);
    }
    n
}


/// O-ORDER: a sequence of terms / rendered strings is reordered, and an element is inserted
pub struct Term;
pub fn canary_reorder(terms: &mut Vec<Term>, strings: Vec<String>) -> Vec<String> {
    terms.swap_remove(0);
    terms.insert(0, Term);
    strings.into_iter().rev().collect()
}
